"""Direction B for the run machine: run generated cases through the real CsvPath, record one event
per _consider_line call, and have TLC validate every trace against spec/RunTrace.tla."""
import json
import os

from . import common, lang, runner, scratch
from .runner import OutOfModel, enc, txt
from .tlc import run_tlc, require_ok, MachineryError


KEEP_INTERNAL = False      # C17's layout runs compare the hash-named variables too (their names must not depend on the layout)


def _norm_vars(variables):
    out = []
    for k, v in variables.items():
        if k.startswith("_intx_") and not KEEP_INTERNAL:
            continue  # hash-named internal bookkeeping (once/onchange markers), not a csvpath variable
        if isinstance(v, dict):
            v = {a: b for a, b in v.items() if b is not None}
            if not v:
                continue  # a tracking variable that was only ever read (see spec/CHOICES.md)
        out.append({"n": k, "v": enc_insertion(v)})
    return out


def enc_insertion(v):
    """like runner.enc but dictionaries keep insertion order (the spec mirrors Python's dict order)"""
    if isinstance(v, dict):
        return runner.V("dict", 0, (), [runner.V("pair", 0, (), [enc_insertion(k), enc_insertion(x)]) for k, x in v.items()])
    if isinstance(v, (list, tuple)):
        return runner.V("list", 0, (), [enc_insertion(x) for x in v])
    return enc(v)


def _vote(v):
    return "t" if v is True else ("f" if v is False else "n")


def _enc_event(ev):
    return {
        "k": ev["k"],
        "exc": ev["exc"] or "",
        "ret": bool(ev["ret"]),
        "scan_count": ev["scan_count"],
        "match_count": ev["match_count"],
        "stopped": bool(ev["stopped"]),
        "advance": ev["advance"],
        "valid": bool(ev["valid"]),
        "votes": [_vote(v) for v in (ev["votes"] or [])],
        "vars": _norm_vars(ev["vars"]),
        # error messages (policy 'print') are counted per call, their wording is not compared
        "printed": [txt(s) for s in ev["printed"]],
        "nerrors": int(ev.get("nerrors", 0)),
        "errcalls": int(ev.get("errcalls", 0)),
        "errlines": [int(x) for x in ev.get("errlines", [])],
    }


def _cell(c):
    """a delivered cell as text: the record's own cell, or f"{v}" of a value a rewriting function put there"""
    if isinstance(c, str):
        return txt(c)
    runner.enc(c)       # raises OutOfModel for values outside the model
    return txt(str(c))


def comment_for(cfg):
    parts = []
    if not cfg["AND"]:
        parts.append("logic-mode: OR")
    if cfg["noMatches"]:
        parts.append("return-mode: no-matches")
    if cfg["keepUnmatched"]:
        parts.append("unmatched-mode: keep")
    if cfg["noRun"]:
        parts.append("run-mode: no-run")
    if cfg.get("noDefaultPrint"):
        parts.append("print-mode: no-default")
    if cfg.get("vm"):
        parts.append("validation-mode: " + ", ".join((f if b else "no-" + f) for f, b in sorted(cfg["vm"].items())))
    return " ".join(parts) if parts else None


def strip_private(prog):
    """drop harness-only keys (leading underscore) before a program is shipped to TLC"""
    p = {k: v for k, v in prog.items() if not k.startswith("_")}
    p["meta"] = [{"k": m["k"], "v": m["v"]} for m in prog.get("meta", [])]
    return p


def run_case(case, method="collect", bare=False):
    """Execute one case for real. Returns (trace_record | None, info).
    bare: a CsvPath as a user makes it - no capturing printer is added, so its only printer is the default standard-out printer,
    and with print-mode: no-default it has no printer at all (the printed lines of the trace are then empty: see final.stdout)."""
    d = scratch.scratch_dir() or scratch.enter_scratch()
    path = os.path.join(d, "f.csv")
    runner.write_csv(path, case["records"], **(case.get("dialect") or {}))
    comment = comment_for(case["cfg"])
    if case.get("_free"):
        comment = case["_free"] + (" " + comment if comment else "")
    text = lang.render_csvpath(case["prog"], path, comment=comment)
    events = []
    nexts = case["cfg"]["nexts"]
    dia = case.get("dialect") or {}
    # the error policy is the configuration's (the scratch default is 'collect, print')
    scratch.set_policy(", ".join(case["cfg"].get("policy") or ["collect", "print"]))
    if bare:
        from csvpath import CsvPath

        p, cap = CsvPath(delimiter=dia.get("delimiter", ","), quotechar=dia.get("quotechar", '"')), runner.CapturePrinter()
    else:
        p, cap = runner.new_csvpath(delimiter=dia.get("delimiter", ","), quotechar=dia.get("quotechar", '"'))
    raised = ""
    lines = None
    orig = p._consider_line

    def wrapped(line):
        exc = None
        ret = None
        try:
            ret = orig(line)
            return ret
        except Exception as e:  # noqa
            exc = e
            raise
        finally:
            s = runner.snapshot(p, line, ret, exc, cap)
            s["printed"] = list(cap.lines)
            events.append(s)

    p._consider_line = wrapped
    with scratch.silence() as sbuf:
        try:
            if method == "collect":
                lines = p.collect(text) if nexts <= 0 else p.collect(text, nexts=nexts)
            elif method == "next":
                lines = [list(l) for l in p.next(text)]
            elif method == "fast_forward":
                p.fast_forward(text)
            else:
                raise ValueError(method)
        except Exception as e:
            raised = type(e).__name__ + ": " + str(e)[:200]
    info = {"csvpath": text.replace(path, "f.csv"), "records": case["records"], "method": method, "raised": raised,
            "adjacent_refs": bool(case["prog"].get("_adjacent_refs")), "ragged_collect": bool(case["prog"].get("_ragged"))}
    try:
        evs = [_enc_event(e) for e in events]
        ret_idx = [e["k"] for e in events if e["ret"]]
        notret_idx = [e["k"] for e in events if not e["ret"]]
        final = {
            "raised": raised.split(":")[0] if raised else "",
            "returned": ret_idx,
            "unmatched": notret_idx if (p.unmatched is not None) else [],
            "vars": _norm_vars(p.variables),
            "valid": bool(p.is_valid),
            "match_count": p.match_count,
            "scan_count": p.scan_count,
            "printed": [txt(s) for s in cap.lines], "nerrors": len(p.errors) if p.errors else 0,
            "checkStdout": not raised and not any("\n" in x for x in cap.lines) and cap.errmsgs == 0,
            "stdout": [txt(x) for x in sbuf.getvalue().split("\n")[:-1]] if not raised else [],
            "checkLines": lines is not None and not raised,
            "lines": [[_cell(c) for c in l] for l in (lines or [])] if not raised else [],
            "headers": [txt(h) for h in (p.headers or [])] if p.scanner is not None else [],
        }
    except OutOfModel as e:
        info["out_of_model"] = str(e)
        return None, info
    # python-side wiring check: the cells delivered are the cells of the records the events name
    cells_ok = True
    nrec = len(case["records"])
    rewrites = bool(case["prog"].get("_rewrites"))     # replace/append/collect: what is delivered is judged by the specification only
    if lines is not None and not raised and not rewrites:
        want = [case["records"][k] if k < nrec else None for k in ret_idx]
        if [list(l) for l in lines] != want:
            cells_ok = False
    if p.unmatched is not None and not raised and not rewrites:
        want = [case["records"][k] if k < nrec else None for k in notret_idx]
        if [list(l) for l in p.unmatched] != want:
            final["unmatched"] = [-1]
    info["cells_ok"] = cells_ok
    info["variables"] = repr(p.variables)[:400]
    info["returned"] = ret_idx
    info["events"] = [{"k": e["k"], "ret": e["ret"], "votes": e["votes"], "vars": repr(e["vars"])[:300], "sc": e["scan_count"], "mc": e["match_count"], "stopped": e["stopped"], "adv": e["advance"], "valid": e["valid"], "printed": e["printed"]} for e in events]
    case["prog"].setdefault("meta", [])
    case["cfg"].setdefault("noDefaultPrint", False)
    rec = {
        "tid": case["tid"],
        "prog": strip_private(case["prog"]),
        "file": lang.enc_file(case["records"]),
        "cfg": case["cfg"],
        "events": evs,
        "final": final,
    }
    return rec, info


def validate(records, dev=(), timeout=1200, workers=16):
    """TLC validates a batch of trace records. Returns (TLCResult, {tid: (verdict, at)})."""
    base = scratch._base()
    path = os.path.join(base, f"traces-{os.getpid()}-{abs(hash(tuple(dev))) % 10000}.ndjson")
    with open(path, "w") as f:
        for r in records:
            f.write(json.dumps(r, separators=(",", ":")) + "\n")
    devs = "{" + ", ".join(f'"{d}"' for d in sorted(dev)) + "}"
    cfgname = f"_gen_RunTrace_{os.getpid()}_{abs(hash(devs)) % 100000}.cfg"
    with open(os.path.join(common.VERIF, "spec", "RunTrace.cfg")) as f:
        cfg = f.read().replace("CONSTANT Dev = {}", f"CONSTANT Dev = {devs}")
    with open(os.path.join(common.VERIF, "spec", cfgname), "w") as f:
        f.write(cfg)
    try:
        res = run_tlc("RunTrace", cfgname, env={"TRACE_FILE": path}, timeout=timeout, workers=workers, keep_stdout=False)
    finally:
        try:
            os.remove(os.path.join(common.VERIF, "spec", cfgname))
            os.remove(path)
        except OSError:
            pass
    require_ok(res, "RunTrace validation")
    if res.invariant_violated:
        raise MachineryError(f"RunTrace: a run-machine property failed on a validated trace: {res.invariant_violated}\n{res.stdout[-3000:]}")
    verdicts = {}
    for v in res.tags.get("V", []):
        verdicts[v["tid"]] = (v["verdict"], v["at"], v.get("expected"))
    return res, verdicts
