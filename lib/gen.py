"""Typed random generator of (program, file, cfg) cases inside the modelled language.

Well-typedness here means: no generated program can raise an argument-validation or Python
error on the generated file (those belong to C05's own pool).  The rules are taken from the
Args declarations of each function (csvpath/matching/functions/**):
  * functions whose arguments do not admit None/"" only read *strict* columns (present in every
    non-blank row) of the right kind; None-tolerant constructs may read any column, also beyond
    short rows;
  * numeric functions read num columns / numeric expressions, string functions txt columns;
  * side-effect functions only occur in match position (top level or right of ->).
"""
import random

from . import lang as L


class Gen:
    def __init__(self, rng, fs, *, AND=True, groups=("core",), max_depth=3):
        self.r = rng
        self.fs = fs
        self.AND = AND
        self.groups = set(groups)
        self.max_depth = max_depth
        self.numvars = []  # variables known to hold numbers at this point of the line (every line)
        self.txtvars = []
        self.anyvars = []
        self.nname = 0
        self.used_onmatch = False
        self.no_headers = False
        self.tracked = []   # (name, key) of tracking variables assigned so far
        self.meta = []
        self.nprint = 0
        self.nappend = 0
        self.rewrites = False
        self.adjacent_refs = False

    # ---- helpers
    def fresh(self, prefix="v"):
        self.nname += 1
        return f"{prefix}{self.nname}"

    def cols(self, kinds, strict=False):
        return [] if self.no_headers else self.fs.cols(kinds, strict)

    def href(self, i):
        if self.fs.named and self.r.random() < 0.6 and self.fs.names.index(self.fs.names[i]) == i:
            return L.hdr(self.fs.names[i])
        return L.hdr(i)

    def any_col(self):
        # may point beyond the row (absent header)
        return self.r.randint(0, self.fs.ncols)

    # ---- numeric expressions (never None, never non-numeric)
    def num(self, d=0):
        r = self.r
        strict = self.cols({"num"}, strict=True)
        opts = ["term", "term", "lines"]
        if strict:
            opts += ["hdr", "hdr", "hdr"]
        if self.numvars:
            opts += ["var"]
        if d < self.max_depth:
            opts += ["add", "subtract", "multiply", "length", "mod", "int"]
        c = r.choice(opts)
        if c == "term":
            return L.term(r.choice([0, 1, 2, 3, 5, 9, 10, 11, 100, -2]))
        if c == "lines":
            return L.fn(r.choice(["count_lines", "line_number", "count_scans", "total_lines", "count", "count_headers", "count_headers_in_line"]))
        if c == "hdr":
            return self.href(r.choice(strict))
        if c == "var":
            return L.var(r.choice(self.numvars))
        if c == "add":
            args = [self.num_or_none(d + 1) for _ in range(r.choice([2, 2, 3]))]
            return L.fn("add", *args)
        if c == "subtract":
            more = [self.num(d + 1)] if r.random() < 0.25 else []
            return L.fn(r.choice(["subtract", "minus"]), self.num(d + 1), self.num(d + 1), *more)
        if c == "multiply":
            # operands are non-negative: a negative operand times 0 is -0.0, whose text form "-0.0"
            # is outside the value model (integral floats print as "n.0")
            return L.fn("multiply", self.nonneg(), self.nonneg())
        if c == "length":
            return L.fn("length", self.text(d + 1))
        if c == "mod":
            return L.fn("mod", self.nonneg(), L.term(r.choice([1, 2, 3, 7])))
        if c == "int":
            return L.fn("int", self.num(d + 1))
        raise AssertionError(c)

    def zero_div_mod(self):
        """mod() whose divisor is zero on some lines (ZeroDivisionError, C05). Only directly right of '=' or as an operand of '==':
        the exception then unwinds to the match component; beneath another function it would be caught there and cascade (IMPL)"""
        r = self.r
        div = L.fn("line_number") if (r.random() < 0.4 or self.no_headers) else L.fn("length", self.text(2, True))
        return L.fn("mod", self.nonneg(), div)

    def nonneg(self):
        r = self.r
        if r.random() < 0.5:
            return L.term(r.choice([0, 1, 2, 3, 5, 10]))
        if r.random() < 0.6:
            return L.fn(r.choice(["count_lines", "line_number", "count_scans", "total_lines"]))
        return L.fn("length", self.text(2))

    def num_or_none(self, d):
        """add() admits None and "" (read as 0): numE columns and absent headers are allowed."""
        cols = self.cols({"num", "numE"})
        if cols and self.r.random() < 0.35:
            return self.href(self.r.choice(cols))
        return self.num(d)

    # ---- text expressions (never None; may be empty only where allowed)
    def text(self, d=0, allow_empty=False):
        r = self.r
        kinds = {"txt", "txtE"} if allow_empty else {"txt"}
        strict = self.cols(kinds, strict=True)
        opts = ["term", "term"]
        if strict:
            opts += ["hdr", "hdr", "hdr"]
        if self.txtvars:
            opts += ["var"]
        if d < self.max_depth:
            opts += ["concat", "lower", "upper", "substring", "strip"]
        c = r.choice(opts)
        if c == "term":
            return L.term(r.choice(["a", "b", "ab", "A", "x", "Zed", "ba", "10"]))
        if c == "hdr":
            return self.href(r.choice(strict))
        if c == "var":
            return L.var(r.choice(self.txtvars))
        if c == "concat":
            # concat(nonempty, anything) is non-empty after the strip Function.to_value applies
            more = [self.text(d + 1, True)] if r.random() < 0.3 else []
            return L.fn("concat", self.text(d + 1, allow_empty), self.text(d + 1, True), *more)
        if c in ("lower", "upper"):
            return L.fn(c, self.text(d + 1))
        if c == "strip":
            t = self.text(d + 1)
            return L.fn("strip", t if t["k"] != "term" else L.fn("concat", t, L.term("x")))
        if c == "substring":
            if allow_empty:
                return L.fn("substring", self.text(d + 1, True), L.term(r.choice([0, 1, 2, 5])))
            return L.fn("substring", self.text(d + 1), L.term(r.choice([1, 2, 5])))
        raise AssertionError(c)

    # ---- anything that can be compared / tested for existence (may be None)
    def anyval(self, d=0):
        r = self.r
        c = r.choice(["hdr", "hdr", "num", "text", "var", "end", "hname"])
        if c == "hdr":
            return self.href_any()
        if c == "end":
            if self.no_headers:
                return self.num(d)
            return L.fn("end") if r.random() < 0.5 else L.fn("end", L.term(r.choice([0, 1, 2, 4])))
        if c == "hname":
            return self.header_lookup(False)
        if c == "num":
            return self.num(d)
        if c == "text":
            return self.text(d)
        vs = self.numvars + self.txtvars + self.anyvars
        if vs:
            return L.var(r.choice(vs))
        return self.href_any()

    def header_lookup(self, expected):
        """header_name(index) / header_index(name), optionally compared with an expected value"""
        r = self.r
        if r.random() < 0.5:
            a = L.term(r.choice([0, 1, 2, 3, 6]))
            e = L.term(r.choice(["ha", "hb", "a", "1"]))
        else:
            a = L.term(r.choice(["ha", "hb", "hc", "a", "zz", "1"]))
            e = L.term(r.choice([0, 1, 2]))
        return L.fn(r.choice(["header_name", "header_index"]), a, *([e] if expected else []))

    def href_any(self):
        if self.no_headers:
            return L.fn("exists", L.fn(self.r.choice(["count_lines", "line_number", "total_lines"])))
        i = self.any_col()
        if i < self.fs.ncols:
            return self.href(i)
        return L.hdr(i)

    # ---- match deciders (pure)
    def boolean(self, d=0):
        r = self.r
        opts = ["hdr", "hdr", "cmp", "cmp", "cmp", "eq", "eq", "yesno", "exists", "empty", "starts",
                "between", "between", "in", "equalsfn", "anyall", "first", "none", "hname"]
        vs = self.numvars + self.txtvars + self.anyvars
        if vs:
            opts += ["var"]
        if d < self.max_depth:
            opts += ["not", "and", "or"]
        if "validity" in self.groups:
            opts += ["valid"]
        c = r.choice(opts)
        if c == "hdr":
            return self.href_any()
        if c == "var":
            return L.var(r.choice(vs))
        if c == "cmp":
            op = r.choice(["above", "gt", "below", "lt", "gte", "lte", "after", "before"])
            if r.random() < 0.7:
                return L.fn(op, self.cmp_num(d + 1), self.cmp_num(d + 1))
            return L.fn(op, self.text(d + 1), self.text(d + 1))
        if c == "eq":
            if "errors" in self.groups and d == 0 and r.random() < 0.3:
                return L.eq(self.zero_div_mod(), self.num(1))
            if r.random() < 0.5:
                return L.eq(self.left_of(self.num(d + 1)), self.num(d + 1))
            return L.eq(self.left_of(self.anyval(d + 1)), self.anyval(d + 1))
        if c == "yesno":
            return L.fn(r.choice(["yes", "no", "true", "false"]))
        if c == "between":
            op = r.choice(["between", "inside", "from_to", "range", "beyond", "outside"])
            ncols = self.cols({"num"})
            if ncols and r.random() < 0.3:
                # all three operands are cells (text that looks like numbers, of different lengths): compared as numbers
                return L.fn(op, self.href(r.choice(ncols)), self.href(r.choice(ncols)), self.href(r.choice(ncols)))
            if r.random() < 0.7:
                return L.fn(op, self.cmp_num(d + 1), self.num(d + 1), self.num(d + 1))
            return L.fn(op, self.text(d + 1), self.text(d + 1), self.text(d + 1))
        if c == "in":
            x = self.anyval(d + 1)
            lst = [r.choice([L.term("a|b | ab"), L.term("10|9|x y"), L.term(5), L.term("Zed"), self.anyval(d + 1)]) for _ in range(r.choice([1, 2, 3]))]
            return L.fn("in", x, *lst)
        if c == "equalsfn":
            if r.random() < 0.5:
                return L.fn(r.choice(["equals", "eq"]), self.num(d + 1), self.num(d + 1))
            return L.fn(r.choice(["equals", "eq"]), self.text(d + 1), self.text(d + 1))
        if c == "anyall":
            k = r.choice(["all", "missing", "all2", "missing2"])   # bare any() also sees print()'s hash-named once-markers (CHOICES.md)
            if k in ("any", "all", "missing"):
                return L.fn(k)
            return L.fn(k[:-1], self.nonterm(self.href_any()), self.nonterm(self.href_any()))
        if c == "first":
            return L.fn(r.choice(["firstscan", "firstline"]))
        if c == "none":
            return L.fn("none")
        if c == "hname":
            return self.header_lookup(r.random() < 0.6)
        if c == "exists":
            return L.fn("exists", self.nonterm(self.anyval(d + 1)))
        if c == "empty":
            return L.fn("empty", self.nonterm(self.anyval(d + 1)))
        if c == "starts":
            return L.fn("starts_with", self.text(d + 1), self.text(d + 1))
        if c == "not":
            return L.fn("not", self.nonterm(self.boolean(d + 1)))
        if c in ("and", "or"):
            return L.fn(c, *[self.boolean(d + 1) for _ in range(r.choice([2, 2, 3, 4]))])
        if c == "valid":
            return L.fn(r.choice(["failed", "valid"]))
        raise AssertionError(c)

    def cmp_num(self, d):
        """operands of ordinal comparisons: numbers, numeric cells (possibly absent => None)"""
        cols = self.cols({"num"})
        if cols and self.r.random() < 0.5:
            return self.href(self.r.choice(cols))
        return self.num(d)

    def nonterm(self, n):
        """not()/exists()/empty() do not take terms"""
        if n["k"] == "term":
            return self.href_any()
        return n

    def left_of(self, n):
        """the left side of == must be a header, variable or function"""
        if n["k"] == "term":
            return self.href_any()
        return n

    # ---- actions: things that may stand right of '->'
    def action(self):
        r = self.r
        opts = ["push", "print", "assign"]
        if "validity" in self.groups:
            opts += ["fail", "fail"]
        if "control" in self.groups:
            opts += ["stop", "skip", "advance"]
        c = r.choice(opts)
        if c == "push":
            return self.push()
        if c == "print":
            return L.fn("print", L.term(r.choice(["hello", "x", "line seen", "a b c"])))
        if c == "assign":
            return self.assignment(plain=True)
        if c == "fail":
            return L.fn(r.choice(["fail", "fail", "fail_and_stop"]) if "control" in self.groups else "fail")
        if c == "stop":
            return L.fn("stop")
        if c == "skip":
            return L.fn("skip")
        if c == "advance":
            return L.fn("advance", L.term(r.choice([1, 2, 3])))
        raise AssertionError(c)

    def push(self):
        r = self.r
        name = r.choice(["stk1", "stk2"])
        quals = []
        if r.random() < 0.15:
            # notnone on a function makes a None/empty argument an argument-validation error
            quals.append("notnone")
            val = r.choice([self.num, self.text])(1)
        elif "print" in self.groups:
            # printed stack elements ($.variables.s.0): a None element prints the whole list (IMPL, see CHOICES.md)
            val = r.choice([self.num, self.text])(1)
        else:
            val = r.choice([self.num, self.text, self.anyval])(1)
        f = r.choice(["push", "push", "push", "push_distinct"])
        if f == "push" and r.random() < 0.15:
            quals.append("distinct")
        return L.fn(f, L.term(name), val, quals=quals)

    def assignment(self, plain=False):
        r = self.r
        kind = r.choice(["num", "num", "txt", "any", "bool"])
        name = self.fresh("x")
        quals = []
        if not plain and r.random() < 0.25:
            quals.append(r.choice(["k", "key2"]))
        if kind == "num" and "errors" in self.groups and r.random() < 0.35:
            rhs = self.zero_div_mod()
            kind = "any"        # on the lines where it raises nothing is written
        elif kind == "num" and "stateful" in self.groups and r.random() < 0.15:
            # a variable assigned from count(<something>): only the bare count() implies onmatch; a count of a value or of a
            # condition is taken, and assigned, on every line the match part sees, matching or not
            anyc = self.cols({"num", "txt"}, strict=True)
            if anyc and r.random() < 0.6:
                rhs = L.fn("count", self.href(r.choice(anyc)), quals=[self.fresh("n")])
            else:
                b = self.boolean(2)
                if b["k"] in ("hdr", "var"):
                    b = L.fn("exists", b)
                rhs = L.fn("count", b, quals=[self.fresh("n")])
        elif kind == "num":
            rhs = self.num(1)
        elif kind == "txt":
            rhs = self.text(1, True)
        elif kind == "bool":
            rhs = self.boolean(1)
            if rhs["k"] in ("hdr", "var"):
                rhs = L.fn("exists", rhs)
            if rhs["k"] == "eq":  # the grammar has no equality on the right of an assignment
                rhs = L.fn("and", rhs, L.fn("yes"))
            if rhs["k"] == "fn" and rhs["name"] in ("none", "header_name", "header_index", "end", "get", "peek"):
                kind = "any"     # none() has the value None: a tracking entry holding None prints as the whole dictionary (IMPL)
        else:
            rhs = self.anyval(1)
        if rhs["k"] == "fn" and rhs["name"] in ("count", "has_matches") and not rhs["args"]:
            # '@x = count()' implies onmatch (a look-ahead over the other components): AND mode only,
            # at most one look-ahead per csvpath (two would recurse into each other)
            if not self.AND or self.used_onmatch:
                rhs = L.fn("count_lines")
            else:
                self.used_onmatch = True
                kind = "gated"
        tracked = quals[0] if quals else None
        if "assignq" in self.groups and rhs["k"] == "hdr":
            # '@x.notnone = #c': only a value that IS None (a cell the row does not have) blocks the write and votes against the
            # line; an empty cell is a value (Assign!Guarded). A draw of its own: the other streams stay as they were.
            if random.Random(f"{name}|{L.render(rhs)}|{len(self.tracked)}").random() < 0.6:
                quals = list(quals) + ["notnone"]
        a = L.assign(L.var(name, quals), rhs)
        a["_defines"] = (name, kind, tracked)
        return a

    def register(self, a):
        d = a.pop("_defines", None)
        if not d:
            return
        name, kind, tracked = d
        if tracked:
            # only values that cannot be None: '$.variables.x.key' prints the whole dictionary when the entry is None (IMPL)
            if kind in ("num", "txt", "bool"):
                self.tracked.append((name, tracked))
            return
        # a variable assigned on every evaluated line before later components read it
        if kind == "num":
            self.numvars.append(name)
        elif kind == "txt":
            # may be "" which string functions that demand non-empty input cannot take: only 'any' use
            self.anyvars.append(name)
        else:
            self.anyvars.append(name)

    # ---- stateful bookkeeping functions (match position, top level)
    def stateful(self):
        r = self.r
        strict_any = self.cols({"num", "txt"}, strict=True)
        strict_num = self.cols({"num"}, strict=True)
        opts = ["counter", "push", "sum_any"]
        if strict_any:
            opts += ["tally", "first", "countx"]
        if strict_num:
            opts += ["sum", "sum"]
            if strict_any:
                opts += ["subtotal"]
        opts += ["countb", "peek", "get", "put", "pop", "pushpair", "pushpair"]
        if strict_any:
            opts += ["every", "track"]
        num_e = self.cols({"numE"}, strict=True)
        if num_e:
            opts += ["sum_e", "sum_e"]
        c = r.choice(opts)
        if c == "sum_e":
            # a sum over a column with empty cells: an empty cell adds nothing, and the value of sum() on that line is the running
            # total as it stands - used as a value (assigned, compared) so that the per-line value is observed, not just the variable
            f = L.fn("sum", self.href(r.choice(num_e)), quals=[self.fresh("s")])
            form = r.choice(["bare", "assign", "assign", "cmp", "cmp"])
            if form == "assign":
                return L.assign(L.var(self.fresh("x")), f)
            if form == "cmp":
                return L.fn(r.choice(["above", "below", "gte"]), f, L.term(r.choice([0, 1, 5, 10, 12, 20])))
            return f
        if c == "every":
            x = self.href(r.choice(strict_any)) if r.random() < 0.6 else L.fn("exists", self.href_any())
            return L.fn("every", x, L.term(r.choice([1, 2, 3])), quals=[self.fresh("e")])
        if c == "track":
            val = r.choice([self.num, self.text])(2)
            return L.fn("track", self.href(r.choice(strict_any)), val, quals=[self.fresh("tr")])
        if c == "pop":
            # pop() takes the last entry off the stack (several components may feed and drain one stack)
            if r.random() < 0.5:
                return L.assign(L.var(self.fresh("pp")), L.fn("pop", L.term(r.choice(["stk1", "stk1", "stk1", "stk2"]))))
            cond = self.boolean(2)
            if cond["k"] in ("term",):
                cond = self.href_any()
            return L.when(cond, L.fn("pop", L.term(r.choice(["stk1", "stk1", "stk1", "stk2"]))))
        if c == "pushpair":
            # a distinct push next to other pushes of few distinct values: what 'distinct' means is decided by the stack itself
            tcols = self.cols({"txt"}, strict=True) if "print" in self.groups else self.cols({"txt", "txtE"})
            val = self.href(r.choice(tcols)) if (tcols and r.random() < 0.5) else L.term(r.choice(["a", "b", "ab", "B"]))
            return L.fn(r.choice(["push_distinct", "push_distinct", "push"]), L.term(r.choice(["stk1", "stk1", "stk1", "stk2"])), val,
                        quals=(["distinct"] if r.random() < 0.4 else []))
        if c == "peek":
            return L.assign(L.var(self.fresh("pk")), L.fn("peek", L.term(r.choice(["stk1", "stk2"])), L.term(r.choice([0, 1, 3]))))
        if c == "get":
            names = self.numvars + self.anyvars + ["stk1", "nosuch"]
            nm = r.choice(names)
            if nm.startswith("stk"):
                return L.assign(L.var(self.fresh("g")), L.fn("get", L.term(nm), L.term(r.choice([0, 1, 5]))))
            return L.assign(L.var(self.fresh("g")), L.fn("get", L.term(nm)))
        if c == "put":
            nm = self.fresh("pt")
            val = L.term(r.choice([1, 7, "ab"])) if r.random() < 0.5 else (self.href(r.choice(strict_any)) if strict_any else L.term(3))
            if r.random() < 0.5:
                return L.when(self.boolean(2) if r.random() < 0.5 else L.fn("yes"), L.fn("put", L.term(nm), val))
            return L.when(L.fn("yes"), L.fn("put", L.term(nm), L.term(r.choice(["k1", "k2"])), val))
        if c == "counter":
            if r.random() < 0.5:
                return L.fn("counter", quals=[self.fresh("c")])
            # the increment is what the argument says - also 0 (the counter stays put), also a numeric cell
            if strict_num and r.random() < 0.3:
                return L.fn("counter", self.href(r.choice(strict_num)), quals=[self.fresh("c")])
            return L.fn("counter", L.term(r.choice([0, 0, 1, 2, 5])), quals=[self.fresh("c")])
        if c == "push":
            return self.push()
        if c == "tally":
            # a column a short row does not reach is tallied under the key "None"
            col = self.href(r.choice(strict_any)) if (r.random() < 0.5 or self.no_headers) else self.href_any()
            return L.fn("tally", col, quals=[self.fresh("t")])
        if c == "first":
            return L.fn("first", self.href(r.choice(strict_any)), quals=[self.fresh("f")])
        if c == "countx":
            return L.fn("count", self.href(r.choice(strict_any)), quals=[self.fresh("n")])
        if c == "countb":
            b = self.boolean(2)
            if b["k"] in ("hdr", "var"):
                b = L.fn("exists", b)
            q = [self.fresh("n")]
            if r.random() < 0.3:
                q.append("onmatch")
            return L.fn("count", b, quals=q)
        if c == "sum":
            return L.fn("sum", self.href(r.choice(strict_num)), quals=[self.fresh("s")])
        if c == "sum_any":
            return L.fn("sum", self.num(2), quals=[self.fresh("s")])
        if c == "subtotal":
            return L.fn("subtotal", self.href(r.choice(strict_any)), self.href(r.choice(strict_num)), quals=[self.fresh("st")])
        raise AssertionError(c)

    # ---- print() with a template of text chunks and references (spec/Print.tla)
    def template(self):
        r = self.r
        CH = "abXY z01 .,;:!-+()<>/|?%&@#^'=*_"
        items = []
        n = r.choice([1, 2, 2, 3, 3, 4, 5])
        prev_ref = False
        if r.random() < 0.15:
            # the same variable referenced several times with different second segments: each reference has its own value
            stk = r.choice(["stk1", "stk2"])
            subs = r.sample(["0", "1", "length", "2"], r.choice([2, 3]))
            for j, sub in enumerate(subs):
                if j:
                    items.append(L.t_text(r.choice([" ", ",", " / ", ";"])))
                items.append(L.t_ref("variables", stk, sub))
            items.append(L.t_text(r.choice([" |", ";", " "])))
            n = r.choice([0, 1, 2])
        for _ in range(n):
            if r.random() < 0.5:
                if prev_ref and r.random() < 0.9:
                    # two references with nothing between them are C16's listed finding: keep them rare
                    items.append(L.t_text(r.choice(L.SEPARATORS)))
                elif prev_ref:
                    self.adjacent_refs = True
                items.append(self.tref())
                prev_ref = True
            else:
                ln = r.choice([1, 1, 2, 3, 6])
                s = "".join(r.choice(CH) for _ in range(ln))
                if r.random() < 0.15:
                    s += r.choice(["..", "...", "1..3", " .. "])
                if prev_ref and s[0] not in L.SEPARATORS + ".":
                    s = r.choice(L.SEPARATORS) + s      # a name-like character would extend the reference's name
                if items and items[-1]["k"] == "text":
                    items[-1] = L.t_text("".join(chr(c) for c in items[-1]["s"]) + s)
                else:
                    items.append(L.t_text(s))
                prev_ref = False
        if items and items[0]["k"] == "text" and chr(items[0]["s"][0]) == " ":
            pass
        return items

    def tref(self):
        r = self.r
        opts = ["csvpath", "csvpath", "undef"]
        plain = self.numvars + self.anyvars
        if plain:
            opts += ["var", "var", "var"]
        if self.tracked:
            opts += ["tracked", "tracked"]
        strict = self.cols({"num", "txt", "numE", "txtE"}, strict=True)
        if strict:
            opts += ["hdr", "hdr", "hdr"]
        if self.meta:
            opts += ["meta"]
        opts += ["stack"]
        c = r.choice(opts)
        if c == "csvpath":
            return L.t_ref("csvpath", r.choice(["count_lines", "line_number", "count_matches", "count_scans", "total_lines", "valid", "stopped"]))
        if c == "undef":
            return L.t_ref("variables", "nosuchvar")
        if c == "var":
            return L.t_ref("variables", r.choice(plain))
        if c == "tracked":
            n, k = r.choice(self.tracked)
            return L.t_ref("variables", n, k if r.random() < 0.8 else "otherkey")
        if c == "hdr":
            i = r.choice(strict)
            if self.fs.named and r.random() < 0.6:
                return L.t_ref("headers", self.fs.names[i])
            return L.t_ref("headers", str(i))
        if c == "meta":
            return L.t_ref("metadata", r.choice(self.meta)["_k"])
        return L.t_ref("variables", r.choice(["stk1", "stk2"]), r.choice(["0", "1", "length", "7"]))

    def print_component(self):
        r = self.r
        self.nprint += 1
        quals = []
        if r.random() < 0.2:
            quals.append("once")
        if self.AND and not self.used_onmatch and r.random() < 0.2:
            quals.append("onmatch")
            self.used_onmatch = True
        items = self.template()
        if "once" in quals:
            # the once-marker is keyed by the component's text: two identical print.once components share it (IMPL)
            items.append(L.t_text(f" ({self.nprint})"))
        n = L.print_node(items, quals=quals, uid=f"print{self.nprint}")
        x = r.random()
        if x < 0.12:
            n["args"].append(L.term(r.choice(["audit", "errs"])))               # a named printout stream
        elif x < 0.24:
            # the follow-up is a side-effect function: a value producer (counter, sum ...) would already act when print's
            # argument values are validated, before and whether or not the entry is printed (IMPL, CHOICES.md)
            n["args"].append(L.fn(r.choice(["push", "push", "push_distinct"]), L.term("stk2"), L.term(self.nprint)))
        return n

    # ---- replace / append / collect: the csvpath rewrites or projects the line (spec/Eval.tla, st.line / st.headers / st.limit)
    def rewrite_component(self):
        r = self.r
        self.rewrites = True
        strict = self.fs.cols({"num", "numE", "txt", "txtE"}, True)     # columns every non-blank row reaches
        k = r.choice(["replace", "replace", "append", "append", "collect"])
        if not strict:
            k = "append"

        def target(i):
            return L.term(self.fs.names[i]) if (self.fs.named and r.random() < 0.5) else L.term(i)

        val = r.choice([self.text, self.num, self.anyval])(2)
        cond = self.boolean(1)
        if cond["k"] == "term":
            cond = self.href_any()
        if k == "replace":
            f = L.fn("replace", target(r.choice(strict)), val)
        elif k == "append":
            self.nappend += 1
            args = [L.term(r.choice(["extra", "hb", "new one", "ha"])), val]
            if r.random() < 0.4:
                args.append(L.fn(r.choice(["yes", "no"])))
            f = L.fn("append", *args)
            f["name_q"] = f"append{self.nappend}"
        else:
            cols = [r.choice(strict) for _ in range(r.choice([1, 2, 3]))]
            f = L.fn("collect", *[target(i) for i in cols])
        if r.random() < 0.3:
            return L.when(cond, f)
        return f

    def rewrite_reader(self):
        """components that read the rewritten line without demanding a type of its cells"""
        r = self.r
        k = r.choice(["hdr", "hdr", "assign", "end", "nline", "nhdr", "name"])
        name = self.fresh("rw")
        if k == "hdr":
            return self.href_any()
        if k == "assign":
            return L.assign(L.var(name), self.href_any())
        if k == "end":
            return L.assign(L.var(name), L.fn("end", *([L.term(1)] if r.random() < 0.4 else [])))
        if k == "nline":
            return L.assign(L.var(name), L.fn("count_headers_in_line"))
        if k == "nhdr":
            return L.assign(L.var(name), L.fn("count_headers"))
        return L.assign(L.var(name), L.hdr(r.choice(["extra", "hb", "new one"])))

    def boolean_free(self, d):
        """a condition that reads no variables: for components that are INSERTED among the others afterwards (a variable is only
        read after the component that assigns it)"""
        saved = (self.numvars, self.txtvars, self.anyvars)
        self.numvars, self.txtvars, self.anyvars = [], [], []
        try:
            return self.boolean(d)
        finally:
            self.numvars, self.txtvars, self.anyvars = saved

    # ---- one top-level component
    def component(self):
        r = self.r
        opts = ["bool", "bool", "bool", "when", "assign", "assign", "stateful", "stateful"]
        if "print" in self.groups:
            opts += ["print", "print", "print", "print"]
        if "control" in self.groups:
            opts += ["control", "control", "control", "last"]
        if "validity" in self.groups:
            opts += ["when", "validity"]
        if "errors" in self.groups and not self.no_headers:
            opts += ["err", "err", "err"]
        c = r.choice(opts)
        if c == "err":
            # a numeric function over a column whose cells need not be numbers (C05); the column may also be absent (None: accepted)
            return L.err(self.href_any())
        if c == "print":
            return self.print_component()
        if c == "control":
            k = r.choice(["stop", "skip", "advance", "stop0", "skip0"])
            cond = self.boolean(1)
            if cond["k"] in ("hdr", "var", "term"):
                cond = L.fn("exists", self.nonterm(cond))
            if k == "stop":
                return L.fn(r.choice(["stop", "stop", "fail_and_stop"]), cond)
            if k == "skip":
                return L.fn("skip", cond)
            if k == "advance":
                return L.when(cond, L.fn("advance", L.term(r.choice([1, 2, 3]))))
            if k == "stop0":
                return L.when(cond, L.fn("stop"))
            return L.when(cond, L.fn("skip"))
        if c == "last":
            return L.fn("last")
        if c == "validity":
            cond = self.boolean(1)
            if cond["k"] == "term":
                cond = self.href_any()
            return L.when(cond, L.fn(r.choice(["fail", "fail", "fail_and_stop"])))
        if c == "bool":
            if self.AND and not self.used_onmatch and not self.no_headers and r.random() < 0.06:
                # firstmatch() asks whether the rest of the line matches: the csvpath's one look-ahead, top level only
                self.used_onmatch = True
                return L.fn("firstmatch")
            if self.anyvars and r.random() < 0.1:
                # a bare variable that may hold "" or None: the existence test of a variable is 'is not None'
                return L.var(r.choice(self.anyvars))
            b = self.boolean(0)
            if b["k"] == "term":
                b = self.href_any()
            return b
        if c == "when":
            left = self.boolean(1)
            if left["k"] == "term":
                left = self.href_any()
            act = self.action()
            act.pop("_defines", None)  # conditionally assigned: not reliably defined afterwards
            if r.random() < 0.12:
                # 'cond.nocontrib -> action': the when/do does not contribute to the line's match (the qualifier sits on the
                # leftmost function or variable of the condition - Eval!LeftNoContrib)
                n = left
                while n["k"] in ("eq", "assign", "when"):
                    n = n["args"][0]
                if n["k"] in ("fn", "var") and "nocontrib" not in n["quals"]:
                    n["quals"] = list(n["quals"]) + ["nocontrib"]
            return L.when(left, act)
        if c == "assign":
            a = self.assignment()
            self.register(a)
            return a
        if c == "stateful":
            return self.stateful()
        raise AssertionError(c)

    def program(self, ncomps=None):
        r = self.r
        n = ncomps or r.choice([1, 1, 2, 2, 3, 3, 4, 5, 6])
        if "print" in self.groups and r.random() < 0.5:
            self.meta = [L.meta_field("title", r.choice(["hello", "a b", "x1"]))]
            if r.random() < 0.5:
                self.meta.append(L.meta_field("owner", r.choice(["team", "me too"])))
        comps = [self.component() for _ in range(n)]
        if "errors" in self.groups and "control" in self.groups and not self.no_headers and r.random() < 0.4:
            # an error pending on a line that a later skip() ends: the skip leaves the line at once, the error is still handed to the
            # handler with that line's number (every way out of Matcher.matches goes through clear_errors - Eval!Flush)
            cond = self.boolean_free(1)
            if cond["k"] in ("hdr", "var", "term"):
                cond = L.fn("exists", self.nonterm(cond)) if cond["k"] != "term" else L.fn("yes")
            comps.insert(r.randint(0, len(comps)), L.err(self.href_any()))
            comps.insert(r.randint(1, len(comps)), r.choice([L.fn("skip", cond), L.when(cond, L.fn("skip")), L.fn("skip")]))
        te = self.cols({"txtE"}, strict=True)
        if "errors" in self.groups and te and r.random() < 0.25:
            # a division by the length of a cell that is empty on some lines: the exception arises in a component that has just read
            # an empty value
            comps.insert(r.randint(0, len(comps)), L.eq(L.fn("mod", self.nonneg(), L.fn("length", self.href(r.choice(te)))), L.term(r.choice([0, 1, 2]))))
        if "errors" in self.groups and r.random() < 0.2:
            # an error raised by what last() triggers: on a file that ends in a blank record only the last() components run
            # (Matcher._do_lasts), and what they raise is handled under the policy like an error on any other line
            comps.append(L.when(L.fn("last"), L.assign(L.var(self.fresh("x")), L.fn("mod", L.term(r.choice([5, 7])), L.term(0)))))
        ncols_ = self.cols({"num"}, strict=True)
        if ncols_ and r.random() < 0.2:
            # an interval test whose three operands are all text that looks like numbers (cells, quoted numbers of different lengths):
            # numbers are compared as numbers whatever they are written in
            lo, hi = r.choice([("9", "10"), ("5", "100"), ("2", "11"), ("10", "9"), ("100", "20")])
            a = self.href(r.choice(ncols_))
            b = self.href(r.choice(ncols_)) if (len(ncols_) > 1 and r.random() < 0.4) else L.term(lo)
            comps.insert(r.randint(0, len(comps)), L.fn(r.choice(["between", "inside", "from_to", "range", "beyond", "outside"]), a, b, L.term(hi)))
        if "stateful" in self.groups and r.random() < 0.15:
            # a counter whose increment is 0 on some or all lines: it stays where it is (the increment is what the argument says)
            strict_num = self.cols({"num"}, strict=True)
            arg = self.href(r.choice(strict_num)) if (strict_num and r.random() < 0.4) else L.term(0)
            c = L.fn("counter", arg, quals=[self.fresh("c")])
            if r.random() < 0.4:
                cond = self.boolean_free(1)
                c = L.when(self.href_any() if cond["k"] == "term" else cond, c)
            comps.insert(r.randint(0, len(comps)), c)
        if "validity" in self.groups and r.random() < 0.3:
            # the verdict as of the current line, recorded line by line next to whatever fails the file: valid() is true until the
            # line on which the file fails, failed() from that line on
            obs = r.choice([L.fn("push", L.term("vs"), L.fn(r.choice(["valid", "valid", "failed"]))),
                            L.assign(L.var(self.fresh("x")), L.fn(r.choice(["valid", "valid", "failed"])))])
            comps.insert(r.randint(0, len(comps)), obs)
        num_e = self.cols({"numE"}, strict=True)
        if num_e and r.random() < 0.3:
            # the running total of a column with empty cells, observed as a value on every line (see stateful(): sum_e)
            f = L.fn("sum", self.href(r.choice(num_e)), quals=[self.fresh("s")])
            comps.insert(r.randint(0, len(comps)), r.choice([L.assign(L.var(self.fresh("x")), f),
                                                            L.fn(r.choice(["above", "below", "gte"]), f, L.term(r.choice([0, 1, 5, 10, 12, 20])))]))
        ecols = self.cols({"txtE", "numE"})
        if ecols and r.random() < 0.12:
            # a variable assigned from a cell that may be empty, then tested for existence: a variable exists unless it is None
            name = self.fresh("e")
            comps += [L.assign(L.var(name), self.href(r.choice(ecols))), L.var(name)]
        if "stateful" in self.groups and r.random() < 0.2:
            # one stack fed and drained by several components: 'distinct' and pop() are about the stack as it is NOW
            # (printed stack elements must not be None - IMPL, CHOICES.md: only columns every row reaches when there are print components)
            tcols = self.cols({"txt"}, strict=True) if "print" in self.groups else self.cols({"txt", "txtE"})
            v1 = self.href(r.choice(tcols)) if tcols else L.term("a")
            block = [L.fn("push_distinct", L.term("stk1"), v1),
                     L.fn("push", L.term("stk1"), L.term(r.choice(["a", "b", "ab", "B"]))),
                     L.when(L.eq(L.fn("mod", L.fn("line_number"), L.term(2)), L.term(r.choice([0, 1]))), L.fn("pop", L.term("stk1")))]
            r.shuffle(block)
            comps += block[: r.choice([2, 3, 3])]
        if "rewrite" in self.groups and not self.used_onmatch:
            # replace()/append()/collect() come after the typed components (a replaced cell need not keep its column's type) and
            # are followed by readers that take any value; no look-ahead may run them early
            self.used_onmatch = True
            block = []
            for _ in range(r.choice([1, 1, 2, 3])):
                block.append(self.rewrite_component())
                # once a cell may have been replaced, the values and conditions of later rewrites do not read headers
                self.no_headers = True
            self.no_headers = False
            block += [self.rewrite_reader() for _ in range(r.choice([0, 1, 2, 3]))]
            comps = comps + block
        if "control" in self.groups and r.random() < 0.35 and not self.used_onmatch:
            # a 'last() ->' component comes last (C01's quantifier): the implementation freezes the
            # path again after its action, which disables every later component of that line.
            # Its action must not read headers: on a blank final record there are none.
            self.no_headers = True
            um = self.used_onmatch
            self.used_onmatch = True  # no look-ahead from inside a last() action (it would run on a blank final record too)
            # nor does it read variables: a skip()/stop()/advance() may have kept every assignment from running before the last line
            saved = (self.numvars, self.txtvars, self.anyvars)
            self.numvars, self.txtvars, self.anyvars = [], [], []
            act = self.action()
            self.numvars, self.txtvars, self.anyvars = saved
            self.used_onmatch = um
            self.no_headers = False
            act.pop("_defines", None)
            comps.append(L.when(L.fn("last"), act))
        elif "control" in self.groups and r.random() < 0.2:
            # a conditional skip() in the FINAL position: whether or not an earlier component already voted against the line,
            # the flag is spent on this line and the next line starts clean
            cond = self.boolean(1)
            if cond["k"] in ("hdr", "var", "term"):
                cond = L.fn("exists", self.nonterm(cond))
            comps.append(r.choice([L.fn("skip", cond), L.when(cond, L.fn("skip"))]))
        first = self.fs.first_data_line()
        sc = self.scan(first)
        prog = {"scan": sc, "comps": comps, "meta": list(self.meta), "_adjacent_refs": self.adjacent_refs, "_rewrites": self.rewrites}
        prog["initVars"] = L.init_vars(prog)
        return prog

    def scan(self, first):
        r = self.r
        n = len(self.fs.records)
        c = r.choice(["all", "all", "from", "range", "plus", "one"]) if first == 0 else r.choice(["from", "from", "range", "plus", "one"])
        hi = max(n + 1, first + 2)
        if c == "all":
            return L.scan("all")
        if c == "from":
            return L.scan("from", r.randint(first, max(first, min(3, hi))))
        if c == "one":
            return L.scan("one", r.randint(first, hi))
        if c == "range":
            a = r.randint(first, hi)
            b = r.randint(first, hi)
            if a == b:
                b = a + 1
            return L.scan("range", a, b)
        # plus list: ascending, non-overlapping numbers and forward ranges
        items = []
        lo = first
        for _ in range(r.choice([2, 2, 3])):
            if r.random() < 0.5:
                a = r.randint(lo, lo + 2)
                items.append(L.scan("one", a))
                lo = a + 1
            else:
                a = r.randint(lo, lo + 2)
                b = a + r.randint(1, 2)
                items.append(L.scan("range", a, b))
                lo = b + 1
        if r.random() < 0.3:
            r.shuffle(items)     # the same operands in another order denote the same lines
        return L.scan("plus", items=items)


def make_case(rng, tid, *, groups=("core",), AND=None, max_rows=8, modes=False, ragged_collect=False, nomatch_p=0.0):
    # control functions are about what happens around blank records: more of them
    fs = L.FileSpec(rng, max_rows=max_rows, blank_p=0.22 if "control" in groups else 0.12)
    if AND is None:
        AND = True if "errors" in groups else rng.random() < 0.7     # with an error the line does not match: stated for AND
    g = Gen(rng, fs, AND=AND, groups=groups)
    prog = g.program()
    if ragged_collect and rng.random() < 0.2:
        # collect() of a header that a matched line need not have: handing such a line to the caller fails (InputException) - in
        # every method at the same line (only relations between runs judge these cases: prog["_ragged"])
        prog["comps"].append(L.fn("collect", L.term(rng.choice([fs.ncols, fs.ncols, max(0, fs.ncols - 1), fs.ncols + 1]))))
        prog["_ragged"] = True
    if "errors" in groups and fs.records and fs.records[-1] != [] and rng.random() < 0.25:
        fs.records.append([])       # errors on a file that ends in a blank record
    if rng.random() < 0.15:
        # a standalone csvpath: the cross-path signals are plain stop / skip / advance / fail on the csvpath that executes them
        ren = {"stop": "stop_all", "skip": "skip_all", "advance": "advance_all", "fail": "fail_all"}
        for c in prog["comps"]:
            for n in L.walk(c):
                if n["k"] == "fn" and n["name"] in ren and rng.random() < 0.7:
                    n["name"] = ren[n["name"]]
    cfg = {"AND": AND, "noMatches": False, "keepUnmatched": False, "collecting": True, "noRun": False, "nexts": 0}
    if "errors" in groups:
        # the error policy of the configuration and the csvpath's own validation-mode overrides
        flags = ["raise", "collect", "stop", "fail", "print", "quiet"]
        pol = [f for f in flags if rng.random() < 0.45] or [rng.choice(flags)]
        cfg["policy"] = pol
        cfg["vm"] = {f: rng.random() < 0.5 for f in ("raise", "stop", "fail", "print", "match") if rng.random() < 0.2}
    if modes:
        cfg["noMatches"] = rng.random() < 0.5
        cfg["keepUnmatched"] = rng.random() < 0.6
        cfg["noRun"] = rng.random() < 0.1
        cfg["noDefaultPrint"] = rng.random() < 0.5
    if nomatch_p and random.Random(f"nomatch|{tid}|{len(fs.records)}|{len(prog['comps'])}").random() < nomatch_p:
        # return-mode: no-matches: the lines handed to the caller are the ones that do NOT match, so the number of lines returned and
        # the match count part company (a draw of its own: the other streams stay as they were)
        cfg["noMatches"] = True
    case = {"tid": tid, "prog": prog, "records": fs.records, "cfg": cfg}
    if modes and rng.random() < 0.6:
        # free comment text of arbitrary characters (all but ~ [ ] $, and no colon: a colon after a word would make a field) and
        # additional metadata fields, in front of the mode settings: neither changes what the settings mean
        chars = "\"'#@(){}<>!?%&*+=/\\|;,^`_-. 0aZ\u00e9\t\n"
        free = "".join(rng.choice(chars) for _ in range(rng.randint(1, 12))).strip()
        extra = rng.choice(["", "", "note-1: " + "".join(rng.choice(chars) for _ in range(rng.randint(1, 8))).strip() + " x", "owner: team a"])
        case["_free"] = " ".join(x for x in (free, extra) if x)
    return case


def make_group(rng, tid, *, n_members=None, groups=("core",), max_rows=7, modes=False):
    """1-4 generated csvpaths over one shared generated file (no cross-path functions, no references)"""
    fs = L.FileSpec(rng, max_rows=max_rows)
    n = n_members or rng.choice([1, 2, 2, 3, 3, 4])
    members = []
    for i in range(n):
        AND = rng.random() < 0.75
        g = Gen(rng, fs, AND=AND, groups=groups)
        prog = g.program(ncomps=rng.choice([1, 2, 2, 3, 4]))
        cfg = {"AND": AND, "noMatches": False, "keepUnmatched": False, "collecting": True, "noRun": False, "nexts": 0}
        if modes:
            cfg["keepUnmatched"] = rng.random() < 0.4
            cfg["noMatches"] = rng.random() < 0.2
        members.append({"prog": prog, "cfg": cfg})
    return {"tid": tid, "records": fs.records, "members": members}
