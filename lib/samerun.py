"""TLC validation of the relation "these recorded executions are one run" (spec/SameRun.tla)."""
import json
import os

from . import common, scratch
from .tlc import run_tlc, require_ok, MachineryError


def other(trace, rel="same", *, lines=True, unmatched=False, n=0):
    return {"rel": rel, "trace": {"events": trace["events"], "final": trace["final"]}, "lines": bool(lines), "unmatched": bool(unmatched), "n": int(n)}


def case(tid, base, others):
    return {"tid": tid, "base": {"events": base["events"], "final": base["final"]}, "others": others}


def validate(cases, timeout=1200):
    """returns (TLCResult, {tid: {"verdict", "at", "expected"}})"""
    base = scratch._base()
    path = os.path.join(base, f"samerun-{os.getpid()}.ndjson")
    with open(path, "w") as f:
        for c in cases:
            f.write(json.dumps(c, separators=(",", ":")) + "\n")
    try:
        res = require_ok(run_tlc("SameRun", "SameRun.cfg", env={"TRACE_FILE": path}, timeout=timeout, keep_stdout=False), "SameRun")
    finally:
        try:
            os.remove(path)
        except OSError:
            pass
    out = {v["tid"]: v for v in res.tags.get("V", [])}
    missing = [c["tid"] for c in cases if c["tid"] not in out]
    if missing:
        raise MachineryError(f"SameRun gave no verdict for {len(missing)} cases (first {missing[:5]})")
    return res, out
