"""One PROCESS of a C19 history: reads {"dir":..., "steps":[...]} on stdin, runs the steps in order in
this fresh interpreter, prints the list of job results as JSON. Steps: {"op":"job","text":..., "via":"direct"|"paths",
"delimiter":..,"quotechar":..} | {"op":"clearcache"}."""
import json
import os
import shutil
import sys

sys.path.insert(0, os.path.dirname(os.path.dirname(os.path.abspath(__file__))))


def main():
    spec = json.load(sys.stdin)
    os.chdir(spec["dir"])
    os.environ["CSVPATH_CONFIG_PATH"] = os.path.join(spec["dir"], "config", "config.ini")
    from lib import runner, scratch, runtrace

    out = []
    cp = None
    for st in spec["steps"]:
        if st["op"] == "clearcache":
            shutil.rmtree("cache", ignore_errors=True)
            os.makedirs("cache", exist_ok=True)
            continue
        if st["op"] == "rewrite":
            # another file is put at the path (History!Rewrite): the path-keyed disk cache belongs to the file that was there
            shutil.copyfile(st["v2"], st["file"])
            shutil.rmtree("cache", ignore_errors=True)
            os.makedirs("cache", exist_ok=True)
            continue
        from csvpath import CsvPath, CsvPaths

        named = st["via"] == "named"
        if named:
            # the job as a named run: its file registered under ONE shared name (whatever was registered under it before),
            # its csvpath as a one-member group; the result is the member's
            with scratch.silence():
                if cp is None:
                    cp = CsvPaths(delimiter=st["delimiter"], quotechar=st["quotechar"])
                cp.delimiter, cp.quotechar = st["delimiter"], st["quotechar"]
                raised, lines, p, cap = None, None, None, runner.CapturePrinter()
                orig_factory = CsvPaths.csvpath

                def factory(self_):
                    q = orig_factory(self_)
                    q.add_printer(cap)
                    return q

                CsvPaths.csvpath = factory
                # the lines handed on are taken where they are decided (the archive stores them as text in its own dialect)
                got_lines = []
                orig_consider = CsvPath._consider_line

                def consider(q, line):
                    r = orig_consider(q, line)
                    if r:
                        got_lines.append(list(q.limit_collection(line)))
                    return r

                CsvPath._consider_line = consider
                try:
                    cp.file_manager.add_named_file(name="shared", path=st["file"])
                    cp.paths_manager.add_named_paths(name="job", paths=[st["text"]])
                    cp.collect_paths(pathsname="job", filename="shared")
                    res = cp.results_manager.get_named_results("job")[0]
                    p = res.csvpath
                    lines = got_lines
                except Exception as e:
                    raised = f"{type(e).__name__}: {e}"[:200]
                finally:
                    CsvPaths.csvpath = orig_factory
                    CsvPath._consider_line = orig_consider
            if p is None:
                out.append({"lines": None, "variables": None, "printed": [], "nerrors": 0, "valid": None, "scan_count": -1, "match_count": -1,
                            "stopped": None, "headers": None, "raised": raised})
                continue
            try:
                variables = json.loads(json.dumps(p.variables, sort_keys=True, default=repr))
            except Exception:
                variables = repr(p.variables)
            out.append({"lines": lines, "variables": variables, "printed": cap.lines, "nerrors": len(res.errors or []) if res.errors is not None else 0,
                        "valid": p.is_valid, "scan_count": p.scan_count, "match_count": p.match_count, "stopped": p.stopped,
                        "headers": p.headers if p.scanner is not None else None, "raised": raised})
            continue
        with scratch.silence():
            if st["via"] == "paths":
                if cp is None:
                    cp = CsvPaths(delimiter=st["delimiter"], quotechar=st["quotechar"])
                cp.delimiter, cp.quotechar = st["delimiter"], st["quotechar"]
                p = cp.csvpath()
            else:
                p = CsvPath(delimiter=st["delimiter"], quotechar=st["quotechar"])
            cap = runner.CapturePrinter()
            p.add_printer(cap)
            raised = None
            lines = None
            try:
                lines = p.collect(st["text"])
            except Exception as e:
                raised = f"{type(e).__name__}: {e}"[:200]
        try:
            variables = json.loads(json.dumps(p.variables, sort_keys=True, default=repr))
        except Exception:
            variables = repr(p.variables)
        out.append({
            "lines": lines, "variables": variables, "printed": cap.lines, "nerrors": len(p.errors or []),
            "valid": p.is_valid, "scan_count": p.scan_count, "match_count": p.match_count, "stopped": p.stopped,
            "headers": p.headers if p.scanner is not None else None, "raised": raised,
        })
    json.dump(out, sys.stdout)


main()
