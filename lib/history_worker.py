"""One PROCESS of a C19 history: reads {"dir":..., "steps":[...]} on stdin, runs the steps in order in
this fresh interpreter, prints the list of job results as JSON. Steps: {"op":"job","text":..., "via":"direct"|"paths",
"delimiter":..,"quotechar":..} | {"op":"clearcache"}."""
import json
import os
import shutil
import sys

sys.path.insert(0, os.path.dirname(os.path.dirname(os.path.abspath(__file__))))


def main():
    spec = json.load(sys.stdin)
    os.chdir(spec["dir"])
    os.environ["CSVPATH_CONFIG_PATH"] = os.path.join(spec["dir"], "config", "config.ini")
    from lib import runner, scratch, runtrace

    out = []
    cp = None
    for st in spec["steps"]:
        if st["op"] == "clearcache":
            shutil.rmtree("cache", ignore_errors=True)
            os.makedirs("cache", exist_ok=True)
            continue
        from csvpath import CsvPath, CsvPaths

        with scratch.silence():
            if st["via"] == "paths":
                if cp is None:
                    cp = CsvPaths(delimiter=st["delimiter"], quotechar=st["quotechar"])
                cp.delimiter, cp.quotechar = st["delimiter"], st["quotechar"]
                p = cp.csvpath()
            else:
                p = CsvPath(delimiter=st["delimiter"], quotechar=st["quotechar"])
            cap = runner.CapturePrinter()
            p.add_printer(cap)
            raised = None
            lines = None
            try:
                lines = p.collect(st["text"])
            except Exception as e:
                raised = f"{type(e).__name__}: {e}"[:200]
        try:
            variables = json.loads(json.dumps(p.variables, sort_keys=True, default=repr))
        except Exception:
            variables = repr(p.variables)
        out.append({
            "lines": lines, "variables": variables, "printed": cap.lines, "nerrors": len(p.errors or []),
            "valid": p.is_valid, "scan_count": p.scan_count, "match_count": p.match_count, "stopped": p.stopped,
            "headers": p.headers if p.scanner is not None else None, "raised": raised,
        })
    json.dump(out, sys.stdout)


main()
