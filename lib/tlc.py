"""Thin TLC runner: one invocation, bounded by `timeout`, output parsed into a result object.

Everything TLC writes goes to a scratch metadir under /dev/shm which is removed afterwards.
Exit code 2 of the calling check is reserved for failures of this layer (TLC crash, timeout,
unparsable output); those are raised as MachineryError and are never reported as a verdict.
"""
import json
import os
import re
import shutil
import subprocess
import tempfile
import time

JAR = "/opt/veriftools/tla/tla2tools.jar:/opt/veriftools/tla/CommunityModules-deps.jar"
SPEC_DIR = os.path.join(os.path.dirname(os.path.dirname(os.path.abspath(__file__))), "spec")


class MachineryError(Exception):
    pass


class TLCResult:
    def __init__(self):
        self.stdout = ""
        self.generated = 0
        self.distinct = 0
        self.depth = 0
        self.records = []  # decoded PrintT(<<"F", json>>) payloads
        self.tags = {}  # other tags -> list of payloads
        self.invariant_violated = None
        self.error = None
        self.wall = 0.0
        self.coverage = {}  # action name -> (distinct, generated)
        self.cmd = ""

    @property
    def ok(self):
        return self.invariant_violated is None and self.error is None


_RE_STATES = re.compile(r"(\d+) states generated, (\d+) distinct states found")
_RE_DEPTH = re.compile(r"The depth of the complete state graph search is (\d+)")
_RE_INV = re.compile(r"Error: Invariant (\S+) is violated")
_RE_PROP = re.compile(r"Error: (Action property|Temporal properties|Action property) (\S+)? ?.*violated")
_RE_COV = re.compile(r"^<(\w+) line \d+, col \d+ to line \d+, col \d+ of module (\w+)>: (\d+):(\d+)")


def _parse_print(line):
    # <<"TAG", "json-escaped-string">>
    if not line.startswith('<<"'):
        return None
    m = re.match(r'^<<"([A-Za-z0-9_]+)", (".*")>>$', line)
    if not m:
        return None
    try:
        inner = json.loads(m.group(2))
        return m.group(1), json.loads(inner)
    except Exception:
        return None


def run_tlc(
    module,
    cfg=None,
    *,
    spec_dir=SPEC_DIR,
    workers=16,
    timeout=600,
    env=None,
    simulate=None,
    depth=None,
    seed=None,
    coverage=False,
    deadlock=False,
    extra=None,
    heap="6g",
    dfs=False,
    keep_stdout=True,
):
    """Run TLC on spec_dir/module.tla with spec_dir/cfg. Returns TLCResult."""
    meta = tempfile.mkdtemp(prefix="tlcmeta-", dir="/dev/shm")
    cmd = ["java", "-XX:+UseParallelGC", f"-Xmx{heap}"]
    if dfs:
        cmd.append("-Dtlc2.tool.queue.IStateQueue=StateDeque")
    cmd += ["-cp", JAR, "tlc2.TLC", "-workers", str(workers), "-metadir", meta, "-noGenerateSpecTE"]
    if cfg:
        cmd += ["-config", cfg]
    if not deadlock:
        cmd += ["-deadlock"]
    if simulate:
        cmd += ["-simulate", simulate]
    if depth:
        cmd += ["-depth", str(depth)]
    if seed is not None:
        cmd += ["-seed", str(seed)]
    if coverage:
        cmd += ["-coverage", "1"]
    if extra:
        cmd += list(extra)
    cmd.append(module if module.endswith(".tla") else module + ".tla")
    e = dict(os.environ)
    if env:
        e.update({k: str(v) for k, v in env.items()})
    res = TLCResult()
    res.cmd = " ".join(cmd)
    t0 = time.time()
    try:
        p = subprocess.run(
            cmd, cwd=spec_dir, env=e, stdout=subprocess.PIPE, stderr=subprocess.STDOUT, timeout=timeout, text=True
        )
        out = p.stdout
        rc = p.returncode
    except subprocess.TimeoutExpired as ex:
        out = ex.stdout.decode() if isinstance(ex.stdout, bytes) else (ex.stdout or "")
        rc = -9
        res.error = f"timeout after {timeout}s"
    finally:
        shutil.rmtree(meta, ignore_errors=True)
    res.wall = time.time() - t0
    if keep_stdout:
        res.stdout = out
    for line in out.splitlines():
        if line.startswith('<<"'):
            pr = _parse_print(line)
            if pr:
                tag, payload = pr
                if tag == "F":
                    res.records.append(payload)
                else:
                    res.tags.setdefault(tag, []).append(payload)
                continue
        m = _RE_STATES.search(line)
        if m:
            res.generated, res.distinct = int(m.group(1)), int(m.group(2))
            continue
        m = _RE_DEPTH.search(line)
        if m:
            res.depth = int(m.group(1))
            continue
        m = _RE_INV.search(line)
        if m:
            res.invariant_violated = m.group(1)
            continue
        if line.startswith("Error:") and res.invariant_violated is None and res.error is None:
            if "violated" in line:
                res.invariant_violated = line
            else:
                res.error = line
        m = _RE_COV.match(line)
        if m:
            res.coverage[m.group(1)] = (int(m.group(3)), int(m.group(4)))
    if not keep_stdout:
        res.stdout = out[-4000:]
    if rc not in (0, 12, 13) and res.error is None and res.invariant_violated is None:
        # 12 = safety violation, 13 = liveness violation
        res.error = f"tlc exit code {rc}"
    return res


def require_ok(res, what):
    """TLC itself must have finished; an invariant violation of the *model* is reported by caller."""
    if res.error is not None:
        raise MachineryError(f"{what}: {res.error}\n{res.stdout[-3000:]}")
    return res
