"""Run Apalache (symbolic model checker for TLA+) on a typed wrapper module: used for inductive-invariant arguments
(IndInit => Inv at length 0, Inv /\\ Next => Inv' at length 1) next to TLC's bounded exploration."""
import os
import shutil
import subprocess
import tempfile
import time

from .tlc import MachineryError


def check(module_path, *, init, inv, length, cinit=None, timeout=900):
    """returns dict(outcome='NoError'|'Error'|..., wall_s, tail)"""
    exe = shutil.which("apalache-mc")
    if not exe:
        raise MachineryError("apalache-mc is not on PATH")
    out = tempfile.mkdtemp(prefix="apa-", dir="/dev/shm" if os.path.isdir("/dev/shm") else None)
    try:
        cmd = [exe, "check", f"--init={init}", f"--inv={inv}", f"--length={length}", f"--out-dir={out}"]
        if cinit:
            cmd.append(f"--cinit={cinit}")
        cmd.append(os.path.basename(module_path))
        t0 = time.time()
        try:
            p = subprocess.run(cmd, cwd=os.path.dirname(module_path), capture_output=True, text=True, timeout=timeout)
        except subprocess.TimeoutExpired:
            raise MachineryError(f"apalache timed out after {timeout}s on {module_path}")
        text = p.stdout + p.stderr
        outcome = "?"
        for line in text.splitlines():
            if "The outcome is:" in line:
                outcome = line.split("The outcome is:")[1].split()[0]
        if outcome == "?":
            raise MachineryError(f"apalache gave no outcome:\n{text[-1500:]}")
        return {"outcome": outcome, "wall_s": round(time.time() - t0, 2), "tail": text[-600:]}
    finally:
        shutil.rmtree(out, ignore_errors=True)
