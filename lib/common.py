"""Shared plumbing for the checks: tiers/seeds, evidence, violations, known findings, worker pools."""
import hashlib
import json
import multiprocessing as mp
import os
import sys
import time

VERIF = os.path.dirname(os.path.dirname(os.path.abspath(__file__)))
EVIDENCE_DIR = os.path.join(VERIF, "evidence")
OUT_DIR = os.path.join(VERIF, "out")
KNOWN_FILE = os.path.join(VERIF, "known_findings.json")
NCPU = min(16, os.cpu_count() or 1)


def seed():
    try:
        return int(os.environ.get("VERIF_SEED", "0"))
    except ValueError:
        return 0


def tier(arg=None):
    t = os.environ.get("VERIF_TIER") or arg or "quick"
    return "thorough" if t.startswith("t") else "quick"


class Report:
    """Collects what one run of a check did and writes evidence + the output contract."""

    def __init__(self, pid, tier_, level="model_checking"):
        self.pid = pid
        self.tier = tier_
        self.level = level
        self.t0 = time.time()
        self.states = 0
        self.transitions = 0
        self.traces = 0
        self.evaluations = 0
        self.nontrivial = set()
        self.samples = []
        self.violations = []  # (key, payload)
        self.known_hit = {}  # finding id -> count
        self.extra = {}
        self.assumptions = []
        self.rule = ""
        self.tlc_runs = []
        self.exhaustive = None
        self._known = load_known(pid)

    # ---- TLC bookkeeping
    def add_tlc(self, name, res):
        self.states += res.distinct
        self.transitions += res.generated
        self.tlc_runs.append(
            {
                "instance": name,
                "states_distinct": res.distinct,
                "states_generated": res.generated,
                "depth": res.depth,
                "wall_s": round(res.wall, 2),
                "coverage_actions": {k: list(v) for k, v in sorted(res.coverage.items())} or None,
            }
        )

    def sample(self, s, cap=6):
        if len(self.samples) < cap:
            self.samples.append(s)

    def nontrivial_case(self, key):
        self.nontrivial.add(key if isinstance(key, (str, int, tuple)) else json.dumps(key, sort_keys=True))

    # ---- verdicts
    def violation(self, payload, finding=None):
        """Record a discrepancy. If `finding` names a listed known finding it is reported as such."""
        if finding is not None and finding in self._known:
            self.known_hit[finding] = self.known_hit.get(finding, 0) + 1
            return
        self.violations.append(payload)

    def known_ids(self):
        return set(self._known)

    def finish(self):
        os.makedirs(EVIDENCE_DIR, exist_ok=True)
        for fid, n in sorted(self.known_hit.items()):
            print(f"KNOWN-FINDING: property={self.pid} {fid}: {self._known[fid]['what']} (seen {n}x)")
        paths = []
        if os.environ.get("VERIF_DEBUG") and (self.violations or self.known_hit):
            os.makedirs(os.path.join(OUT_DIR, self.pid), exist_ok=True)
            with open(os.path.join(OUT_DIR, self.pid, "all.debug"), "w") as f:
                json.dump(self.violations, f, default=str)
        if self.violations:
            d = os.path.join(OUT_DIR, self.pid)
            os.makedirs(d, exist_ok=True)
            seen = set()
            for v in self.violations[:25]:
                blob = json.dumps(v, sort_keys=True, default=str)
                h = hashlib.sha256(blob.encode()).hexdigest()[:16]
                if h in seen:
                    continue
                seen.add(h)
                p = os.path.join(d, f"{h}.json")
                with open(p, "w") as f:
                    json.dump(v, f, indent=1, sort_keys=True, default=str)
                paths.append(p)
                print(f"VIOLATION property={self.pid} replay={p}")
        cov = {
            "states": max(self.states, 0),
            "transitions": max(self.transitions, 0),
            "traces_validated_against_impl": self.traces,
            "samples": self.samples or ["<none>"],
            "evaluations": self.evaluations,
            "distinct_nontrivial": len(self.nontrivial),
            "rule": self.rule,
            "tlc_instances": self.tlc_runs,
            "known_findings_seen": self.known_hit,
        }
        if self.exhaustive is not None:
            cov["exhaustive"] = bool(self.exhaustive)
        cov.update(self.extra)
        ev = {
            "property_id": self.pid,
            "tier": self.tier,
            "seed": seed(),
            "level": self.level,
            "coverage": cov,
            "assumptions": self.assumptions,
            "wall_s": round(time.time() - self.t0, 2),
            "violations": len(self.violations),
        }
        with open(os.path.join(EVIDENCE_DIR, f"{self.pid}.json"), "w") as f:
            json.dump(ev, f, indent=1, default=str)
        print(
            f"[{self.pid}] tier={self.tier} states={self.states} transitions={self.transitions} "
            f"impl_traces={self.traces} evaluations={self.evaluations} nontrivial={len(self.nontrivial)} "
            f"violations={len(self.violations)} known={sum(self.known_hit.values())} wall={ev['wall_s']}s"
        )
        return 1 if self.violations else 0


def load_known(pid):
    try:
        with open(KNOWN_FILE) as f:
            data = json.load(f)
    except FileNotFoundError:
        return {}
    out = {}
    for e in data.get("findings", []):
        if e.get("property") == pid and e.get("status", "known") == "known":
            out[e["id"]] = e
    return out


def machinery_failure(pid, msg):
    print(f"MACHINERY-FAILURE property={pid}: {msg}", file=sys.stderr)
    sys.exit(2)


# ---- worker pool -----------------------------------------------------------------------------

_worker_fn = None


def _init_worker(initializer, initargs):
    if initializer:
        initializer(*initargs)


class _Guarded:
    """fn, followed by the check that the harness's own observation code did not fail while fn ran"""

    def __init__(self, fn):
        self.fn = fn

    def __call__(self, x):
        from . import runner

        out = self.fn(x)
        runner.check_harness()
        return out


def pmap(fn, items, *, initializer=None, initargs=(), chunksize=None, procs=None):
    """Parallel map preserving order. fn must be a top-level function."""
    items = list(items)
    fn = _Guarded(fn)
    procs = procs or NCPU
    if len(items) == 0:
        return []
    if procs <= 1 or len(items) < 4:
        if initializer:
            initializer(*initargs)
        return [fn(x) for x in items]
    if chunksize is None:
        chunksize = max(1, min(64, len(items) // (procs * 4) or 1))
    from . import scratch as _scratch

    _scratch._base()  # the parent owns the scratch base so that it is removed when the check exits
    ctx = mp.get_context("fork")
    with ctx.Pool(procs, initializer=_init_worker, initargs=(initializer, initargs)) as pool:
        return pool.map(fn, items, chunksize=chunksize)
