"""Record named-paths (CsvPaths) runs: per-member traces for RunTrace, the global schedule of
_consider_line calls, the lines handed to the caller, the in-memory results and the archive."""
import os

from . import lang, pharness, runner, runtrace, scratch
from .runner import OutOfModel, txt


class Recorder:
    """Class-level interposition, active only while installed (nothing in /repo is edited)."""

    def __init__(self):
        self.members = []  # per created member: dict(p, cap, events)
        self.schedule = []  # global order of (member index, k, ret)
        self.line_objs = {}  # id(line object) -> (k, line object kept alive)
        self._orig_factory = None
        self._orig_consider = None

    def install(self):
        from csvpath import CsvPath, CsvPaths

        rec = self
        self._orig_factory = CsvPaths.csvpath
        self._orig_consider = CsvPath._consider_line

        def factory(cp_self):
            p = rec._orig_factory(cp_self)
            cap = runner.CapturePrinter()
            p.add_printer(cap)
            p._verif_member = len(rec.members)
            rec.members.append({"p": p, "cap": cap, "events": []})
            return p

        def consider(p_self, line):
            idx = getattr(p_self, "_verif_member", None)
            if idx is None:
                return rec._orig_consider(p_self, line)
            exc = None
            ret = None
            try:
                ret = rec._orig_consider(p_self, line)
                return ret
            except Exception as e:  # noqa
                exc = e
                raise
            finally:
                m = rec.members[idx]
                s = runner.snapshot(p_self, line, ret, exc, m["cap"])
                s["printed"] = list(m["cap"].lines)
                m["events"].append(s)
                rec.schedule.append((idx, s["k"], bool(ret)))
                rec.line_objs[id(line)] = (s["k"], line)

        CsvPaths.csvpath = factory
        CsvPath._consider_line = consider
        # the records a line-major run reads, by identity: a record no member considers can still be handed to the caller
        from csvpath.managers.files.file_manager import FileManager

        self._orig_get_reader = FileManager.__dict__["get_reader"]
        orig_get = FileManager.get_reader

        def get_reader(path, **kw):
            reader = orig_get(path, **kw)
            inner = reader.next

            def nxt():
                for k, line in enumerate(inner()):
                    rec.line_objs.setdefault(id(line), (k, line))
                    yield line

            try:
                reader.next = nxt
            except Exception:
                pass
            return reader

        FileManager.get_reader = staticmethod(get_reader)

    def uninstall(self):
        from csvpath import CsvPath, CsvPaths

        if self._orig_factory is not None:
            CsvPaths.csvpath = self._orig_factory
            CsvPath._consider_line = self._orig_consider
            self._orig_factory = None
            from csvpath.managers.files.file_manager import FileManager

            FileManager.get_reader = self._orig_get_reader


def member_trace(tid, member_case, rec_member, *, collecting, records):
    """Build a RunTrace record for one member from its recorded events."""
    p = rec_member["p"]
    cap = rec_member["cap"]
    events = rec_member["events"]
    evs = [runtrace._enc_event(e) for e in events]
    ret_idx = [e["k"] for e in events if e["ret"]]
    notret_idx = [e["k"] for e in events if not e["ret"]]
    cfg = dict(member_case["cfg"])
    cfg["collecting"] = collecting
    cfg["nexts"] = 0
    cfg.setdefault("noDefaultPrint", False)
    final = {
        "raised": "",
        "returned": ret_idx,
        "unmatched": notret_idx if (p.unmatched is not None) else [],
        "vars": runtrace._norm_vars(p.variables),
        "valid": bool(p.is_valid),
        "match_count": p.match_count,
        "scan_count": p.scan_count,
        "printed": [txt(s) for s in cap.lines], "nerrors": len(p.errors) if p.errors else 0,
        "checkLines": False, "lines": [], "headers": [], "checkStdout": False, "stdout": [],
    }
    return {
        "tid": tid,
        "prog": runtrace.strip_private(member_case["prog"]),
        "file": lang.enc_file(records),
        "cfg": cfg,
        "events": evs,
        "final": final,
    }


def setup_project(name, records, groups, delimiter=",", quotechar='"', policy=None):
    """fresh scratch project with one named file 'data' and the given named-paths groups
    groups: {group name: [csvpath text, ...]} (texts use the file name placeholder $data)"""
    scratch.fresh_subdir(name)
    if policy:
        scratch.set_policy(policy)      # the csvpath error policy of this project's configuration
    os.makedirs("src", exist_ok=True)
    runner.write_csv("src/data.csv", records, delimiter=delimiter, quotechar=quotechar)
    cp = pharness.new_csvpaths(delimiter=delimiter, quotechar=quotechar)
    cp.file_manager.add_named_file(name="data", path="src/data.csv")
    for g, ps in groups.items():
        cp.paths_manager.add_named_paths(name=g, paths=ps)
    return cp


def member_text(case, ident=None, extra_comment=None):
    """csvpath text of a group member: identity and modes in the outer comment"""
    parts = []
    if ident:
        parts.append(f"id: {ident}")
    c = runtrace.comment_for(case["cfg"])
    if c:
        parts.append(c)
    if extra_comment:
        parts.append(extra_comment)
    comment = " ".join(parts) if parts else None
    return lang.render_csvpath(case["prog"], "data", comment=comment)
