"""pytest plugin (loaded with `-p lib.verif_pytest_plugin`, PYTHONPATH=/verif) that records every standalone CsvPath run the
repository's own tests make as a RunTrace record: one event per _consider_line call plus the final state. Nothing in /repo is
edited: the three run methods are wrapped at class level while the plugin is loaded. Output: one JSON line per recordable run in
the file named by VERIF_TRACE_OUT (runs outside the modelled subset are counted in <file>.skipped)."""
import json
import os

from lib import fromimpl, runner, runtrace
from lib.runner import OutOfModel, txt

OUT = os.environ.get("VERIF_TRACE_OUT")
_state = {"n": 0, "skipped": {}}


def _skip(reason):
    r = reason.split(":")[0][:60]
    _state["skipped"][r] = _state["skipped"].get(r, 0) + 1


def _begin(p):
    if getattr(p, "_verif_rec", None) is not None or getattr(p, "csvpaths", None) is not None:
        return None
    cap = runner.CapturePrinter()
    p.add_printer(cap)
    rec = {"cap": cap, "events": [], "collect_nexts": 0}
    orig = p._consider_line

    def wrapped(line):
        exc = None
        ret = None
        try:
            ret = orig(line)
            return ret
        except Exception as e:  # noqa
            exc = e
            raise
        finally:
            s = runner.snapshot(p, line, ret, exc, cap)
            s["printed"] = list(cap.lines)
            rec["events"].append(s)

    p._consider_line = wrapped
    p._verif_rec = rec
    return rec


def _end(p, rec, method, raised, lines):
    try:
        del p._consider_line
    except Exception:
        pass
    p._verif_rec = None
    try:
        if p.scanner is None or p.scanner.filename is None:
            return _skip("no file")
        if raised or any(e["exc"] for e in rec["events"]) or (p.errors and len(p.errors) > 0) or getattr(p, "has_errors", lambda: False)():
            return _skip("error behaviour (C05's pool)")
        if rec.get("api_advance"):
            return _skip("CsvPath.advance() called by the test")
        prog = fromimpl.program_of(p)
        records = fromimpl.records_of(p.scanner.filename, p.delimiter, p.quotechar)
        events = [runtrace._enc_event(e) for e in rec["events"]]
        cap = rec["cap"]
        cfg = {"AND": bool(getattr(p, "AND", True)), "noMatches": bool(p.collect_when_not_matched),
               "keepUnmatched": bool(p.unmatched is not None) or bool(getattr(p, "unmatched_available", False)) and method == "collect",
               "collecting": method == "collect", "noRun": False, "nexts": int(rec["collect_nexts"]), "noDefaultPrint": False}
        cfg["keepUnmatched"] = bool(p.unmatched_available)
        ret_idx = [e["k"] for e in rec["events"] if e["ret"]]
        notret_idx = [e["k"] for e in rec["events"] if not e["ret"]]
        final = {
            "raised": raised.split(":")[0] if raised else "",
            "returned": ret_idx,
            "unmatched": notret_idx if (p.unmatched is not None) else [],
            "vars": runtrace._norm_vars(p.variables),
            "valid": bool(p.is_valid),
            "match_count": p.match_count,
            "scan_count": p.scan_count,
            "printed": [txt(s) for s in cap.lines], "nerrors": len(p.errors) if p.errors else 0,
            "checkStdout": False, "stdout": [],
            "checkLines": lines is not None and not raised,
            "lines": [[runtrace._cell(c) for c in l] for l in (lines or [])] if not raised else [],
            "headers": [txt(h) for h in (p.headers or [])],
        }
        if runner.HARNESS_FAILURES:
            # the observation code itself failed during this run: say so to the check (machinery failure), record nothing
            with open(OUT + ".harness_failed", "w") as f:
                f.write(runner.HARNESS_FAILURES[0][-1500:])
            return _skip("harness failure")
        _state["n"] += 1
        out = {"tid": _state["n"], "test": os.environ.get("PYTEST_CURRENT_TEST", "").split(" ")[0], "method": method,
               "csvpath": f"{p.scan} {p.match}"[:2000], "prog": runtrace.strip_private(prog), "file": [[txt(c) for c in r] for r in records],
               "cfg": cfg, "events": events, "final": final}
        with open(OUT, "a") as f:
            f.write(json.dumps(out, separators=(",", ":")) + "\n")
    except OutOfModel as e:
        _skip(str(e))
    except Exception as e:  # a run the recorder cannot describe is skipped, never a test failure
        _skip(f"recorder {type(e).__name__}")


def pytest_configure(config):
    if not OUT:
        return
    from csvpath import CsvPath

    orig_next, orig_collect, orig_ff = CsvPath.next, CsvPath.collect, CsvPath.fast_forward

    def next_(self, csvpath=None):
        rec = _begin(self)
        if rec is None:
            yield from orig_next(self, csvpath)
            return
        raised, lines = "", []
        try:
            for line in orig_next(self, csvpath):
                lines.append(list(line))
                yield line
        except GeneratorExit:
            rec["abandoned"] = True
            raise
        except Exception as e:
            raised = type(e).__name__
            raise
        finally:
            if rec.get("abandoned") and not rec.get("owner"):
                _skip("next() abandoned by the test")
                try:
                    del self._consider_line
                except Exception:
                    pass
                self._verif_rec = None
            elif not rec.get("owner"):
                _end(self, rec, "next", raised, lines)

    def collect(self, csvpath=None, *, nexts=-1):
        rec = _begin(self)
        if rec is None:
            return orig_collect(self, csvpath, nexts=nexts)
        rec["owner"] = "collect"
        rec["collect_nexts"] = nexts if nexts and nexts > 0 else 0
        raised, lines = "", None
        try:
            lines = orig_collect(self, csvpath, nexts=nexts)
            return lines
        except Exception as e:
            raised = type(e).__name__
            raise
        finally:
            _end(self, rec, "collect", raised, [list(l) for l in lines] if lines is not None else None)

    def fast_forward(self, csvpath=None):
        rec = _begin(self)
        if rec is None:
            return orig_ff(self, csvpath)
        rec["owner"] = "fast_forward"
        raised = ""
        try:
            return orig_ff(self, csvpath)
        except Exception as e:
            raised = type(e).__name__
            raise
        finally:
            _end(self, rec, "fast_forward", raised, None)

    orig_advance = CsvPath.advance

    def advance(self, ff=-1):
        rec = getattr(self, "_verif_rec", None)
        if rec is not None:
            rec["api_advance"] = True
        return orig_advance(self, ff)

    CsvPath.next, CsvPath.collect, CsvPath.fast_forward, CsvPath.advance = next_, collect, fast_forward, advance


def pytest_unconfigure(config):
    if OUT:
        with open(OUT + ".skipped", "w") as f:
            json.dump(_state["skipped"], f, indent=1, sort_keys=True)
