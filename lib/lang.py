"""Abstract syntax of csvpath programs as used by the TLA+ specification (spec/Eval.tla),
its rendering to concrete csvpath text, and typed random generators of programs and files.

A node is a dict of ONE shape: {k, name, name_q, quals, args, val, track} (see Eval.tla).
"""
import random

from .runner import V, txt

KEYWORDS = {"onmatch", "onchange", "asbool", "nocontrib", "latch", "increase", "decrease", "notnone", "distinct", "once"}

NONE = V("none")


def vstr(s):
    return V("str", 0, txt(s))


def vint(n):
    return V("int", n)


def node(k, name="", quals=(), args=(), val=None):
    quals = list(quals)
    nonkw = [q for q in quals if q not in KEYWORDS]
    track = vstr(nonkw[0]) if nonkw else NONE
    name_q = nonkw[0] if nonkw else ""
    return {"k": k, "name": name, "name_q": name_q, "quals": quals, "args": list(args), "val": val or NONE, "track": track, "tmpl": []}


def hdr(ref, quals=()):
    if isinstance(ref, int):
        n = node("hdr", str(ref), quals, (), vint(ref))
    else:
        n = node("hdr", ref, quals, (), vstr(ref))
    return n


def var(name, quals=()):
    return node("var", name, quals)


def term(v):
    if isinstance(v, int):
        return node("term", "", (), (), vint(v))
    n = node("term", "", (), (), vstr(v))
    n["name_q"] = v  # a string term names a stack for push/pop
    return n


def fn(name, *args, quals=()):
    return node("fn", name, quals, args)


def eq(l, r):
    return node("eq", "", (), (l, r))


def assign(v, rhs):
    return node("assign", "", (), (v, rhs))


def when(l, r):
    return node("when", "", (), (l, r))


def err(h):
    """an error-provoking component (spec/Eval.tla, kind "err"): add(<header>, 1) over a cell that need not be a number"""
    return node("err", "", (), (h,))


# ---- rendering -------------------------------------------------------------------------------------


def _q(quals):
    return "".join("." + q for q in quals)


def render(n):
    k = n["k"]
    if k == "term":
        v = n["val"]
        if v["t"] == "int":
            return str(v["i"])
        return '"' + "".join(chr(c) for c in v["s"]) + '"'
    if k == "hdr":
        v = n["val"]
        if v["t"] == "int":
            return f'#{v["i"]}' + _q(n["quals"])
        name = "".join(chr(c) for c in v["s"])
        if " " in name:
            return f'#"{name}"' + _q(n["quals"])
        return f"#{name}" + _q(n["quals"])
    if k == "var":
        return f'@{n["name"]}' + _q(n["quals"])
    if k == "fn":
        return f'{n["name"]}{_q(n["quals"])}(' + ", ".join(render(a) for a in n["args"]) + ")"
    if k == "eq":
        return f'{render(n["args"][0])} == {render(n["args"][1])}'
    if k == "assign":
        return f'{render(n["args"][0])} = {render(n["args"][1])}'
    if k == "when":
        return f'{render(n["args"][0])} -> {render(n["args"][1])}'
    if k == "err":
        return f'add({render(n["args"][0])}, 1)'
    raise ValueError(k)


def render_scan(s):
    def atom(a):
        if a["k"] == "one":
            return str(a["a"])
        if a["k"] == "range":
            return f'{a["a"]}-{a["b"]}'
        if a["k"] == "all":
            return "*"
        if a["k"] == "from":
            return f'{a["a"]}*'
        raise ValueError(a)

    if s["k"] == "plus":
        return "+".join(atom(a) for a in s["items"])
    return atom(s)


def scan(k, a=0, b=0, items=()):
    return {"k": k, "a": a, "b": b, "items": list(items)}


def render_csvpath(prog, filename, comment=None, sep=" "):
    body = sep.join(render(c) for c in prog["comps"])
    fields = " ".join(f"{m['_k']}: {m['_v']}" for m in prog.get("meta", []))
    if fields:
        comment = f"{comment} {fields}" if comment else fields
    head = f"~ {comment} ~ " if comment else ""
    return f'{head}${filename}[{render_scan(prog["scan"])}][{sep}{body}{sep}]'


def walk(n):
    yield n
    for a in n["args"]:
        yield from walk(a)


def init_vars(prog):
    """Variables that exist before the first line: counter.name() initialises its variable at parse."""
    out = []
    seen = set()
    for c in prog["comps"]:
        for n in walk(c):
            if n["k"] == "fn" and n["name"] == "counter" and n["name_q"] and n["name_q"] not in seen:
                seen.add(n["name_q"])
                out.append({"n": n["name_q"], "v": vint(0)})
    return out


# ---- files ------------------------------------------------------------------------------------------

NUMS = ["0", "1", "2", "3", "5", "7", "9", "10", "11", "12", "20", "100", "-3", " 4", "8 "]
TXTS = ["a", "b", "ab", "B", "x y", "Zed", "10a", "b ", " c", "ba"]


class FileSpec:
    """A typed random file: column kinds num | numE | txt | txtE; header-name row optional."""

    def __init__(self, rng, *, max_rows=8, named_header=None, allow_blank=True, allow_ragged=True, blank_p=0.12):
        self.ncols = rng.randint(1, 4)
        self.kinds = [rng.choice(["num", "num", "numE", "txt", "txt", "txtE"]) for _ in range(self.ncols)]
        self.named = rng.random() < 0.5 if named_header is None else named_header
        self.names = ["ha", "hb", "hc", "hd"][: self.ncols]
        if self.ncols >= 2 and rng.random() < 0.15:
            # a header name that occurs twice: '#name' is the first column of that name (generators then address the later one by index)
            a, b = sorted(rng.sample(range(self.ncols), 2))
            self.names[b] = self.names[a]
        nrows = rng.randint(0, max_rows)
        rows = []
        if self.named:
            rows.append(list(self.names))
        self.minlen = self.ncols
        for _ in range(nrows):
            if allow_blank and rng.random() < blank_p:
                rows.append([])
                continue
            row = [self.cell(rng, kd) for kd in self.kinds]
            r = rng.random()
            if allow_ragged and r < 0.15 and self.ncols > 1:
                cut = rng.randint(1, self.ncols - 1)
                row = row[:cut]
                self.minlen = min(self.minlen, cut)
            elif allow_ragged and r < 0.22:
                row = row + [rng.choice(NUMS + TXTS)]
            rows.append(row)
        if allow_blank and rows and rng.random() < 0.15:
            rows.append([])
        # a file whose only records are blank has no header row: keep it, it is a legitimate input
        self.records = rows

    @staticmethod
    def cell(rng, kind):
        if kind == "num":
            return rng.choice(NUMS)
        if kind == "numE":
            return rng.choice(NUMS + ["", ""])
        if kind == "txt":
            return rng.choice(TXTS)
        return rng.choice(TXTS + ["", " "])

    def cols(self, kinds, strict=False):
        out = [i for i, kd in enumerate(self.kinds) if kd in kinds]
        if strict:
            out = [i for i in out if i < self.minlen]
        return out

    def first_data_line(self):
        return 1 if self.named else 0


def enc_file(records):
    return [[txt(c) for c in r] for r in records]


# ---- print templates (spec/Print.tla) ----------------------------------------------------------------

SEPARATORS = " ,;:!-+()[]{}<>/|?%&@#^'"     # characters that end a reference name (SIMPLE_NAME excludes them)


def t_text(s):
    return {"k": "text", "s": txt(s), "typ": "", "nameS": "", "nameT": [], "subS": "", "subT": []}


def t_ref(typ, name, sub=""):
    return {"k": "ref", "s": [], "typ": typ, "nameS": name, "nameT": txt(name), "subS": sub, "subT": txt(sub)}


def render_template(items):
    out = []
    for i, it in enumerate(items):
        if it["k"] == "text":
            s = "".join(chr(c) for c in it["s"])
            if i > 0 and items[i - 1]["k"] == "ref" and s.startswith("."):
                s = "." + s          # a literal dot directly after a reference is written '..'
            out.append(s)
        else:
            r = f"$.{it['typ']}.{it['nameS']}"
            if it["subS"]:
                r += f".{it['subS']}"
            out.append(r)
    return "".join(out)


def print_node(items, quals=(), uid="p0"):
    n = fn("print", term(render_template(items)), quals=quals)
    n["tmpl"] = list(items)
    n["name_q"] = uid
    return n


def meta_field(k, v):
    return {"k": txt(k), "v": txt(v), "_k": k, "_v": v}
