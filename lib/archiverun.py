"""Run a named-paths group for real, record the ResultsManager lifecycle calls, and project memory
and the archive into the shape spec/ArchiveTrace.tla validates."""
import hashlib
import json
import os

from . import grouprun, lang, pharness, runner, runtrace, scratch
from .runner import OutOfModel, enc, txt

COLLECTING = {"collect_paths", "next_paths", "collect_by_line", "next_by_line"}
SERIAL = {"collect_paths", "next_paths", "fast_forward_paths"}
FILES6 = ["data.csv", "meta.json", "unmatched.csv", "printouts.txt", "errors.json", "vars.json"]


class CallLog:
    def __init__(self, recorder):
        self.calls = []
        self.rec = recorder
        self._orig = {}

    def install(self):
        from csvpath.managers.results.results_manager import ResultsManager
        from csvpath import CsvPath

        log = self

        def wrap(name, ev, member_of=None):
            orig = getattr(ResultsManager, name)
            self._orig[name] = orig

            def w(rm_self, *a, **kw):
                r = orig(rm_self, *a, **kw)
                m = 0
                if member_of:
                    res = a[0] if a else kw.get("result")
                    m = getattr(res.csvpath, "_verif_member", -1) + 1
                log.calls.append({"ev": ev, "m": m})
                return r

            setattr(ResultsManager, name, w)

        wrap("start_run", "start")
        wrap("add_named_result", "add", True)
        wrap("save", "save", True)
        wrap("complete_run", "complete")
        # an exception escaping a member's _consider_line is the abort point
        inner = CsvPath._consider_line
        self._orig["_consider_line"] = inner

        def consider(p_self, line):
            log.current = getattr(p_self, "_verif_member", None)
            try:
                return inner(p_self, line)
            except Exception:
                if getattr(p_self, "_verif_member", None) is not None and not any(c["ev"] == "abort" for c in log.calls):
                    log.calls.append({"ev": "abort", "m": 0})
                    log.abort_member = p_self._verif_member + 1
                    log.abort_line = p_self.line_monitor.physical_line_number
                raise

        CsvPath._consider_line = consider
        # ... or one that is raised when a matched line is handed to the caller (CsvPath.limit_collection, outside _consider_line)
        inner_lc = CsvPath.limit_collection
        self._orig["limit_collection"] = inner_lc

        def limit_collection(p_self, line):
            try:
                return inner_lc(p_self, line)
            except Exception:
                if getattr(p_self, "_verif_member", None) is not None and not any(c["ev"] == "abort" for c in log.calls):
                    log.calls.append({"ev": "abort", "m": 0})
                    log.abort_member = p_self._verif_member + 1
                    log.abort_line = p_self.line_monitor.physical_line_number
                raise

        CsvPath.limit_collection = limit_collection
        # CsvPaths.stop_all(): the cross-path signal, raised by the member that is considering a line (Archive!SignalStopAll)
        from csvpath import CsvPaths
        orig_stop_all = CsvPaths.stop_all
        self._orig["stop_all"] = orig_stop_all

        def stop_all(cps_self, *a, **kw):
            r = orig_stop_all(cps_self, *a, **kw)
            log.calls.append({"ev": "stopall", "m": (log.current + 1) if log.current is not None else 0})
            return r

        CsvPaths.stop_all = stop_all
        self.current = None
        self.abort_member = 0
        self.abort_line = -1

    def uninstall(self):
        from csvpath.managers.results.results_manager import ResultsManager
        from csvpath import CsvPath, CsvPaths

        for name, orig in self._orig.items():
            if name == "_consider_line":
                CsvPath._consider_line = orig
            elif name == "stop_all":
                CsvPaths.stop_all = orig
            elif name == "limit_collection":
                CsvPath.limit_collection = orig
            else:
                setattr(ResultsManager, name, orig)
        self._orig = {}


def _vars_enc(v):
    j = json.loads(json.dumps(v))
    return [{"n": k, "v": runtrace.enc_insertion(x)} for k, x in j.items()]


def _lines_enc(lines):
    return [[txt(str(c)) for c in l] for l in (lines or [])]


def _flatten_printouts(po):
    """every non-empty section of a printouts dictionary, in its order: a '---- PRINTOUT: <name>' line, then the section's lines"""
    out = []
    for k, v in (po or {}).items():
        if v:
            out.append(f"---- PRINTOUT: {k}")
            # a printed text that contains a line break takes several lines of printouts.txt (the file format is lines)
            out.extend(ln for x in v for ln in str(x).split("\n"))
    return out


def _parse_printouts(text):
    """printouts.txt: '---- PRINTOUT: <name>' sections (printed lines contain no newline); returns every non-empty section, flattened
    the same way as the in-memory printouts"""
    if text is None:
        return []
    out, cur = {}, None
    for ln in text.split("\n"):
        if ln.startswith("---- PRINTOUT: "):
            cur = ln[len("---- PRINTOUT: "):]
            out[cur] = []
        elif cur is not None:
            out[cur].append(ln)
    for k in out:
        if out[k] and out[k][-1] == "":
            out[k].pop()
    return _flatten_printouts(out)


def project_run(cp, group, texts, members_cases, records, rec, calls, method, raised, idents, stores_unchanged=True):
    """Build the ArchiveTrace record of one run. Raises OutOfModel for values outside the model."""
    archive = cp.config.archive_path
    rds = pharness.run_dirs(archive, group)
    run_dir = os.path.join(archive, group, rds[-1]) if rds else None
    run_man = {}
    if run_dir and os.path.exists(os.path.join(run_dir, "manifest.json")):
        run_man = pharness.read_json(os.path.join(run_dir, "manifest.json"))
    try:
        results = cp.results_manager.get_named_results(group)
    except Exception:
        results = []
    members = []
    for i, mc in enumerate(members_cases):
        started = i < len(rec.members)
        expdir = idents[i] if idents[i] else str(i)
        mdir = os.path.join(run_dir, expdir) if run_dir else None
        proj = pharness.project_member(mdir, cp.delimiter, cp.quotechar) if (mdir and os.path.isdir(mdir)) else {"files": None}
        if started:
            p = rec.members[i]["p"]
            events = rec.members[i]["events"]
            res = results[i] if i < len(results) else None
            ret_idx = [e["k"] for e in events if e["ret"]]
            mem = {
                "vars": _vars_enc(p.variables),
                "valid": bool(p.is_valid),
                "errLines": [int(e.line_count) for e in (res.errors if res is not None else [])],
                "printed": [txt(s) for s in (_flatten_printouts(res.get_printouts()) if res is not None else [])],
                "lines": _lines_enc([records[k] for k in ret_idx]),
                "unmatched": _lines_enc(res.unmatched if (res is not None and res.unmatched) else []),
            }
            lastk = events[-1]["k"] if events else -1
        else:
            mem = {"vars": [], "valid": True, "errLines": [], "printed": [], "lines": [], "unmatched": []}
            lastk = -1
        files = proj["files"] or []
        man = proj.get("manifest.json") if isinstance(proj.get("manifest.json"), dict) else {}
        hashes = []
        if mdir and os.path.isdir(mdir):
            for fn in FILES6:
                fp = os.path.join(mdir, fn)
                if os.path.exists(fp):
                    with open(fp, "rb") as f:
                        hashes.append({"name": fn, "fp": hashlib.sha256(f.read()).hexdigest()})
        fps = man.get("file_fingerprints") or {}
        errs = proj.get("errors.json") if isinstance(proj.get("errors.json"), list) else []
        disk = {
            "dirname": expdir if (mdir and os.path.isdir(mdir)) else "<missing>",
            "hasMeta": isinstance(proj.get("meta.json"), dict),
            "hasVars": isinstance(proj.get("vars.json"), dict),
            "hasErrors": isinstance(proj.get("errors.json"), list),
            "hasManifest": bool(man),
            "vars": _vars_enc(proj.get("vars.json")) if isinstance(proj.get("vars.json"), dict) else [],
            "errLines": [int(e.get("line_count", -1)) for e in errs],
            "printed": [txt(s) for s in _parse_printouts(proj.get("printouts.txt"))],
            "hasPrintouts": "printouts.txt" in files,
            "lines": _lines_enc(proj.get("data.csv")),
            "unmatched": _lines_enc(proj.get("unmatched.csv")),
            "man": {
                "valid": bool(man.get("valid")) if "valid" in man else False,
                "completed": bool(man.get("completed")) if "completed" in man else False,
                "error_count": int(man.get("error_count") or 0),
                "fps": [{"name": fn, "fp": fps[fn]} for fn in FILES6 if fn in fps],
            },
            "hashes": hashes,
        }
        # the only other directory names under the run dir must be members
        members.append({"expdir": expdir, "mem": mem, "disk": disk, "scan": mc["prog"]["scan"], "n": len(records), "lastk": lastk})
    other = []
    if run_dir:
        other = sorted(n for n in os.listdir(run_dir) if os.path.isdir(os.path.join(run_dir, n)) and n not in [m["expdir"] for m in members])
    try:
        api_valid = bool(cp.results_manager.is_valid(group))
    except Exception:
        api_valid = False
    # the other questions the results manager answers about the run (C09: "agree with the in-memory results")
    rm = cp.results_manager
    api = {"n_results": -1, "has_errors": False, "n_errors": -1, "specific": [], "last": -1}
    try:
        api["n_results"] = int(rm.get_number_of_results(group))
        api["has_errors"] = bool(rm.has_errors(group))
        # (get_number_of_errors() raises TypeError on the pinned tree - it calls the int property errors_count; no listed
        # property speaks about it, so it is neither asked nor judged)
        for i, ident in enumerate(idents):
            if ident:
                r = rm.get_specific_named_result(group, ident)
                api["specific"].append({"m": i + 1, "got": (getattr(r.csvpath, "_verif_member", -2) + 1) if r is not None else 0})
        lr = rm.get_last_named_result(name=group)
        api["last"] = (getattr(lr.csvpath, "_verif_member", -2) + 1) if lr is not None else 0
    except Exception as e:        # an observation, judged by the specification
        api["error"] = f"{type(e).__name__}: {e}"[:200]
    return {
        "kind": "serial" if method in SERIAL else "byline",
        "nmem": len(members_cases),
        # IMPL (spec/CHOICES.md): among the serial methods only next_paths looks at stop_all() before it starts a member
        "honours": method == "next_paths",
        "calls": calls,
        "outcome": "aborted" if raised else "complete",
        "raised": bool(raised),
        "collects": method in COLLECTING,
        "members": members,
        "run": {
            "status": run_man.get("status", "<none>"),
            "all_valid": bool(run_man.get("all_valid")) if "all_valid" in run_man else False,
            "all_completed": bool(run_man.get("all_completed")) if "all_completed" in run_man else False,
            "error_count": int(run_man.get("error_count") or 0),
        },
        "is_valid_api": api_valid,
        "api": {k: v for k, v in api.items() if k != "error"},
        "api_error": api.get("error", ""),
        "other_dirs": other,
        "abort": {"m": 0, "line": -1},
        "stores_unchanged": bool(stores_unchanged),
    }
