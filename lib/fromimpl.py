"""From a parsed csvpath of the implementation to the AST of spec/Eval.tla (the reverse of lib/lang.render).

Used to validate runs of HAND-WRITTEN csvpaths (the repository's own tests) against the run machine: the program the
specification evaluates is read off the implementation's parse tree (C17 checks that this tree is what was written),
the file is re-read with the run's dialect. Anything outside the modelled subset raises OutOfModel and the run is skipped."""
import csv
import re

from . import lang as L
from .runner import OutOfModel, txt

# the functions spec/Eval.tla has a clause for, with the arities it models (None = any)
MODELLED = {
    "yes": [0], "true": [0], "no": [0], "false": [0], "not": [1], "and": None, "or": None, "exists": [1], "empty": None,
    "above": [2], "gt": [2], "after": [2], "below": [2], "lt": [2], "before": [2], "gte": [2], "lte": [2],
    "between": [3], "inside": [3], "from_to": [3], "range": [3], "beyond": [3], "outside": [3], "in": None, "equals": [2], "eq": [2],
    "all": None, "missing": None, "none": [0], "strip": [1], "mod": [2], "int": [1], "firstscan": [0], "firstline": [0], "firstmatch": [0],
    "concat": None, "length": [1], "lower": [1], "upper": [1], "starts_with": [2], "substring": [2], "add": None, "subtract": None, "minus": None,
    "multiply": None, "sum": [1], "subtotal": [2], "count": [0, 1], "count_lines": [0], "line_number": [0], "count_scans": [0], "total_lines": [0],
    "has_matches": [0], "counter": [0, 1], "tally": [1], "first": [1], "push": [2], "push_distinct": [2], "pop": [1], "size": [1], "peek_size": [1],
    "every": [2], "get": [1, 2], "put": [2, 3], "track": [2], "peek": [2], "stop": [0, 1], "fail_and_stop": [0, 1], "stop_all": [0], "skip": [0, 1],
    "skip_all": [0], "advance": [1], "advance_all": [1], "fail": [0], "fail_all": [0], "failed": [0], "valid": [0], "last": [0, 1], "print": [1, 2],
    "end": [0, 1], "count_headers": [0], "count_headers_in_line": [0], "header_name": [1, 2], "header_index": [1, 2],
    "replace": [2], "append": [2, 3], "collect": None,
}
# qualifiers the specification gives a meaning to on a function / on the left of an assignment
FN_QUALS = {"onmatch", "once", "notnone", "distinct", "nocontrib"}
VAR_QUALS = {"onmatch", "latch", "onchange", "increase", "decrease", "notnone", "asbool", "nocontrib"}


def _term(v):
    if isinstance(v, bool):
        raise OutOfModel("boolean term")
    if isinstance(v, int):
        if abs(v) >= 2**31:
            raise OutOfModel("big int term")
        return L.term(v)
    if isinstance(v, float):
        raise OutOfModel("decimal term")
    if isinstance(v, str):
        if len(v) >= 2 and v.startswith("/") and v.endswith("/"):
            raise OutOfModel("regex term")
        return L.term(v)
    raise OutOfModel(f"term {type(v)}")


_REF = re.compile(r"\$\.(variables|headers|metadata|csvpath)\.([A-Za-z0-9_\-]+)(?:\.([A-Za-z0-9_\-]+))?")


def print_template(s):
    """the template items of a print string (spec/Print.tla); only local references ($.type.name[.sub]) separated by
    characters that cannot continue a name are in the model"""
    if "$" in s.replace("$.", ""):
        raise OutOfModel("reference to another csvpath in print")
    items, pos = [], 0
    for m in _REF.finditer(s):
        if m.start() > pos:
            items.append(("text", s[pos:m.start()]))
        items.append(("ref", m.group(1), m.group(2), m.group(3) or ""))
        pos = m.end()
        # what follows a reference: '..' is a literal dot; a single '.' followed by a name character would continue the reference
        if s[pos:pos + 2] == "..":
            items.append(("text", "."))
            pos += 2
        elif s[pos:pos + 1] == ".":
            raise OutOfModel("dot after a print reference")
    if pos < len(s):
        items.append(("text", s[pos:]))
    out = []
    for it in items:
        if it[0] == "text":
            if out and out[-1]["k"] == "text":
                out[-1] = L.t_text("".join(chr(c) for c in out[-1]["s"]) + it[1])
            else:
                out.append(L.t_text(it[1]))
        else:
            if out and out[-1]["k"] == "ref":
                raise OutOfModel("adjacent print references (listed finding of C16)")
            out.append(L.t_ref(it[1], it[2], it[3]))
    if any("\n" in "".join(chr(c) for c in o["s"]) for o in out if o["k"] == "text"):
        raise OutOfModel("newline in print text")
    return out


class Converter:
    def __init__(self):
        self.nprint = 0
        self.nappend = 0

    def node(self, m):
        from csvpath.matching.productions import Equality, Variable, Term, Header, Reference, Expression
        from csvpath.matching.functions.function import Function

        if isinstance(m, Expression):
            if len(m.children) != 1:
                raise OutOfModel("expression shape")
            return self.node(m.children[0])
        if isinstance(m, Reference):
            raise OutOfModel("reference")
        if isinstance(m, Equality):
            if m.op == "==":
                return L.eq(self.node(m.left), self.node(m.right))
            if m.op == "=":
                left = self.node(m.left)
                if left["k"] != "var":
                    raise OutOfModel("assignment target")
                return L.assign(left, self.node(m.right))
            if m.op == "->":
                return L.when(self.node(m.left), self.node(m.right))
            raise OutOfModel(f"operator {m.op}")
        if isinstance(m, Function):
            name = m.name
            if name not in MODELLED:
                raise OutOfModel(f"function {name}")
            c = m.children[0] if m.children else None      # the function's one child (public tree structure)
            if c is None:
                kids = []
            elif isinstance(c, Equality) and c.op == ",":
                kids = list(c.children)
            else:
                kids = [c]
            ar = MODELLED[name]
            if ar is not None and len(kids) not in ar:
                raise OutOfModel(f"{name} with {len(kids)} arguments")
            quals = list(m.qualifiers or [])
            for q in quals:
                if q in L.KEYWORDS and q not in FN_QUALS:
                    raise OutOfModel(f"qualifier {q} on a function")
            if name == "print":
                s = kids[0].value if isinstance(kids[0], Term) else None
                if not isinstance(s, str):
                    raise OutOfModel("print argument")
                if "onchange" in quals:
                    raise OutOfModel("print.onchange")
                self.nprint += 1
                n = L.fn("print", L.term(s), quals=quals)
                n["tmpl"] = print_template(s)
                n["name_q"] = f"print{self.nprint}"
                if len(kids) == 2:
                    n["args"].append(self.node(kids[1]))
                return n
            args = [self.node(k) for k in kids]
            n = L.fn(name, *args, quals=quals)
            if name == "append":
                self.nappend += 1
                n["name_q"] = f"append{self.nappend}"
            if name in ("sum", "subtotal", "tally", "first", "counter", "every", "track", "count") and len([q for q in quals if q not in L.KEYWORDS]) > 1:
                raise OutOfModel("two names on a function")
            if name in ("push", "push_distinct", "pop", "size", "peek_size", "peek", "get", "put") and not (args and args[0]["k"] == "term" and args[0]["val"]["t"] == "str"):
                raise OutOfModel("stack/variable name is not a string term")
            if name in ("header_name", "header_index") and not (args[0]["k"] == "term" and (args[0]["val"]["t"] == "str" or args[0]["val"]["i"] >= 0)):
                raise OutOfModel("header_name/header_index of a computed or negative position")
            if name in ("counter", "every", "count") and kids and not [q for q in quals if q not in L.KEYWORDS]:
                raise OutOfModel(f"{name} without a name (hash-named bookkeeping)")
            return n
        if isinstance(m, Header):
            quals = list(m.qualifiers or [])
            if any(q != "asbool" for q in quals):
                raise OutOfModel("header qualifier")
            name = m.name
            if isinstance(name, int) or (isinstance(name, str) and name.isdecimal()):
                return L.hdr(int(name), quals)
            return L.hdr(str(name), quals)
        if isinstance(m, Variable):
            quals = list(m.qualifiers or [])
            nonkw = [q for q in quals if q not in L.KEYWORDS]
            if len(nonkw) > 1 or any(q in L.KEYWORDS and q not in VAR_QUALS for q in quals):
                raise OutOfModel("variable qualifiers")
            return L.var(m.name, quals)
        if isinstance(m, Term):
            return _term(m.value)
        raise OutOfModel(type(m).__name__)


def scan_of(scanner, nrecords):
    """the scan part as the shape of spec/Scan.tla, read off the scanner's parsed fields"""
    these = list(scanner.these or [])
    fl, tl = scanner.from_line, scanner.to_line
    if scanner.all_lines and fl is None and not these:
        return L.scan("all")
    if scanner.all_lines and fl is not None and tl is None and not these:
        return L.scan("from", int(fl))
    if not scanner.all_lines and not these and fl is not None and tl is not None:
        return L.scan("range", int(fl), int(tl))
    if not scanner.all_lines and fl is None and tl is None and len(these) == 1:
        return L.scan("one", int(these[0]))
    raise OutOfModel("scan shape")      # '+' lists are flattened by the scanner: not reconstructed here


def program_of(p):
    conv = Converter()
    if p.matcher is None:
        raise OutOfModel("no matcher (no line reached the match part)")
    comps = [conv.node(e[0]) for e in p.matcher.expressions]
    # the specification's look-ahead is for one onmatch-style component per csvpath, in AND mode (CHOICES.md)
    nla = 0
    for c in comps:
        for n in L.walk(c):
            if "onmatch" in n["quals"] or (n["k"] == "fn" and n["name"] == "firstmatch"):
                nla += 1
            if n["k"] == "assign" and n["args"][1]["k"] == "fn" and n["args"][1]["name"] in ("count", "has_matches") and not n["args"][1]["args"]:
                nla += 1
    if nla > 1:
        raise OutOfModel("more than one look-ahead")
    if nla and not bool(getattr(p, "AND", True)):
        raise OutOfModel("look-ahead in OR mode")
    if nla and any(n["k"] == "fn" and n["name"] in ("skip", "stop", "fail_and_stop", "skip_all", "stop_all") for c in comps for n in L.walk(c)):
        raise OutOfModel("look-ahead with skip/stop (listed finding of C13)")
    prog = {"scan": scan_of(p.scanner, 0), "comps": comps, "meta": []}
    for k, v in (p.metadata or {}).items():
        if isinstance(v, str) and isinstance(k, str) and k not in ("original-comment",) and not k.endswith("-mode"):
            prog["meta"].append(L.meta_field(k, v))
    prog["initVars"] = L.init_vars(prog)
    return prog


def records_of(path, delimiter, quotechar):
    if not str(path).lower().endswith((".csv", ".txt", ".tsv", ".psv", ".dat", ".ssv", ".tab")):
        raise OutOfModel("not a delimited text file")
    with open(path, "r", encoding="utf-8", newline="") as f:
        rows = [list(r) for r in csv.reader(f, delimiter=delimiter, quotechar=quotechar)]
    if len(rows) > 400 or any(len(r) > 60 for r in rows):
        raise OutOfModel("file too large for a trace batch")
    for r in rows:
        for c in r:
            txt(c)
    return rows
