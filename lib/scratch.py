"""Scratch isolation for running the real csvpath code (DESIGN 5.2).

Each process gets one scratch directory under /dev/shm, chdir's into it, and points
CSVPATH_CONFIG_PATH at a generated config.ini with relative paths and no [listeners].
"""
import atexit
import contextlib
import io
import os
import shutil
import sys
import tempfile

_SCRATCH = None

CONFIG_TEMPLATE = """[csvpath_files]
extensions = txt, csvpath, csvpaths

[csv_files]
extensions = txt, csv, tsv, dat, tab, psv, ssv

[errors]
csvpath = {csvpath_policy}
csvpaths = {csvpaths_policy}

[logging]
csvpath = error
csvpaths = error
log_file = logs/csvpath.log
log_files_to_keep = 2
log_file_size = 52428800

[config]
path =

[cache]
path = cache

[functions]
imports =

[results]
archive = archive
transfers = transfers

[inputs]
files = inputs/named_files
csvpaths = inputs/named_paths
on_unmatched_file_fingerprints = halt
"""


def write_config(path, csvpath_policy="collect, print", csvpaths_policy="raise, collect"):
    with open(path, "w", encoding="utf-8") as f:
        f.write(CONFIG_TEMPLATE.format(csvpath_policy=csvpath_policy, csvpaths_policy=csvpaths_policy))


def _base():
    """One base directory per check invocation, owned (and removed) by the parent process."""
    b = os.environ.get("VERIF_SCRATCH_BASE")
    if b and os.path.isdir(b):
        return b
    b = tempfile.mkdtemp(prefix=f"verif-{os.getpid()}-", dir="/dev/shm")
    os.environ["VERIF_SCRATCH_BASE"] = b
    pid = os.getpid()

    def _cleanup(d=b, pid=pid):
        if os.getpid() == pid:
            try:
                os.chdir("/")
            except Exception:
                pass
            shutil.rmtree(d, ignore_errors=True)

    atexit.register(_cleanup)
    return b


def enter_scratch(policy="collect, print", csvpaths_policy="raise, collect"):
    """Create (once per process) a scratch dir, chdir into it, set the config env var."""
    global _SCRATCH
    if _SCRATCH is None or not os.path.isdir(_SCRATCH) or not _SCRATCH.endswith(f"w{os.getpid()}"):
        _SCRATCH = os.path.join(_base(), f"w{os.getpid()}")
        os.makedirs(_SCRATCH, exist_ok=True)
    os.chdir(_SCRATCH)
    os.makedirs("config", exist_ok=True)
    cfg = os.path.join(_SCRATCH, "config", "config.ini")
    write_config(cfg, policy, csvpaths_policy)
    os.environ["CSVPATH_CONFIG_PATH"] = cfg
    return _SCRATCH


def scratch_dir():
    return _SCRATCH


def set_policy(policy, csvpaths_policy="raise, collect"):
    """Rewrite the scratch config with another error policy (the documented route)."""
    cfg = os.environ["CSVPATH_CONFIG_PATH"]
    write_config(cfg, policy, csvpaths_policy)


def fresh_subdir(name):
    """A fresh empty working directory below the scratch dir, chdir'd into, with its own config."""
    base = _SCRATCH or enter_scratch()
    d = os.path.join(base, name)
    shutil.rmtree(d, ignore_errors=True)
    os.makedirs(os.path.join(d, "config"))
    os.chdir(d)
    cfg = os.path.join(d, "config", "config.ini")
    write_config(cfg)
    os.environ["CSVPATH_CONFIG_PATH"] = cfg
    return d


@contextlib.contextmanager
def silence():
    """Swallow what the library prints to stdout/stderr (StdOutPrinter is always re-added)."""
    so, se = sys.stdout, sys.stderr
    buf = io.StringIO()
    sys.stdout = buf
    sys.stderr = buf
    try:
        yield buf
    finally:
        sys.stdout, sys.stderr = so, se
