"""Drive the real csvpath implementation and project its state (DESIGN 3, 5.1).

Nothing in /repo is edited: observation is by interposition from outside (wrapping
CsvPath._consider_line at class level) and by reading the public objects after each step.
"""
import csv
import json
import os
import math

from . import scratch


def write_csv(path, records, delimiter=",", quotechar='"'):
    """records: list of list of str; an empty list is a blank record (an empty physical line)."""
    with open(path, "w", newline="", encoding="utf-8") as f:
        w = csv.writer(f, delimiter=delimiter, quotechar=quotechar, lineterminator="\n")
        for r in records:
            if len(r) == 0:
                f.write("\n")
            else:
                w.writerow(r)


# ---- value encoding shared with the TLA+ Values module ---------------------------------------
# uniform record [t, i, s, items]; see spec/Values.tla


def V(t, i=0, s=(), items=()):
    return {"t": t, "i": int(i), "s": list(s), "items": list(items)}


class OutOfModel(Exception):
    pass


def txt(s):
    return [ord(c) for c in s]


def enc(v):
    """Python value -> uniform value record. Raises OutOfModel for values outside the model."""
    if v is None:
        return V("none")
    if v is True or v is False:
        return V("bool", 1 if v else 0)
    if isinstance(v, int):
        if abs(v) >= 2**31:
            raise OutOfModel("int too large")
        return V("int", v)
    if isinstance(v, float):
        if math.isnan(v) or math.isinf(v) or v != int(v) or abs(v) >= 2**31:
            raise OutOfModel("non-integral float")
        return V("float", int(v))
    if isinstance(v, str):
        return V("str", 0, txt(v))
    if isinstance(v, (list, tuple)):
        return V("list", 0, (), [enc(x) for x in v])
    if isinstance(v, dict):
        items = [V("pair", 0, (), [enc(k), enc(x)]) for k, x in v.items()]
        items.sort(key=lambda p: json.dumps(p["items"][0], sort_keys=True))
        return V("dict", 0, (), items)
    raise OutOfModel(f"type {type(v)}")


def enc_vars(variables):
    """dict name -> value  ==> sorted list of [name(text), value]"""
    out = []
    for k in sorted(variables):
        out.append({"n": txt(k), "v": enc(variables[k])})
    return out


# ---- a test printer -----------------------------------------------------------------------------


_IN_ERROR_HANDLER = [0]


def _tag_error_handler():
    """What the error handler sends to the printers (policy 'print') is told apart from the csvpath's own printouts by WHERE it is
    printed from: ErrorHandler.handle_error is wrapped (class level, from outside) and printouts made while it runs are error
    messages - their wording (an exception's text, 'Wrong value in match component ...') is not part of the compared printouts."""
    from csvpath.util.error import ErrorHandler

    if getattr(ErrorHandler.handle_error, "_verif", False):
        return
    orig = ErrorHandler.handle_error

    def handle_error(self, ex):
        _IN_ERROR_HANDLER[0] += 1
        try:
            return orig(self, ex)
        finally:
            _IN_ERROR_HANDLER[0] -= 1

    handle_error._verif = True
    ErrorHandler.handle_error = handle_error


class CapturePrinter:
    def __init__(self):
        self.lines = []
        self.named = []
        self.errmsgs = 0          # printouts made by the error handler (not in self.lines)
        _tag_error_handler()

    @property
    def last_line(self):
        return self.lines[-1] if self.lines else None

    @property
    def lines_printed(self):
        return len(self.lines)

    def print(self, string):
        if _IN_ERROR_HANDLER[0]:
            self.errmsgs += 1
            return
        self.lines.append(string)
        self.named.append((None, string))

    def print_to(self, name, string):
        if _IN_ERROR_HANDLER[0]:
            self.errmsgs += 1
            return
        # a printout sent to a named stream is recorded the way the standard-out printer shows it: "[name] text"
        self.lines.append(string if not name else f"[{name}] {string}")
        self.named.append((name, string))


# ---- standalone run -------------------------------------------------------------------------------


def new_csvpath(delimiter=",", quotechar='"', config=None):
    from csvpath import CsvPath

    p = CsvPath(delimiter=delimiter, quotechar=quotechar, config=config)
    cap = CapturePrinter()
    p.add_printer(cap)
    return p, cap


def run_standalone(text, *, method="collect", nexts=-1, delimiter=",", quotechar='"', events=None, config=None):
    """Run one csvpath standalone. Returns a dict with the observable results.

    events: optional list; when given, one record per _consider_line call is appended (trace).
    """
    from csvpath import CsvPath

    p, cap = new_csvpath(delimiter, quotechar, config=config)
    out = {"raised": None, "lines": None}
    hook = None
    if events is not None:
        hook = _install_line_hook(p, events, cap)
    try:
        with scratch.silence() as buf:
            try:
                if method == "collect":
                    out["lines"] = p.collect(text) if nexts == -1 else p.collect(text, nexts=nexts)
                elif method == "next":
                    out["lines"] = [list(l) for l in p.next(text)]
                elif method == "fast_forward":
                    p.fast_forward(text)
                    out["lines"] = None
                else:
                    raise ValueError(method)
            except Exception as e:  # the run raised: part of the observable behaviour
                out["raised"] = type(e).__name__
                out["raised_msg"] = str(e)[:300]
        out["stdout"] = buf.getvalue()
    finally:
        if hook:
            hook()
    out["csvpath"] = p
    out["printed"] = list(cap.lines)
    return out


def _install_line_hook(p, events, cap):
    """Wrap this instance's _consider_line; log after the call returns or raises."""
    orig = p._consider_line

    def wrapped(line):
        exc = None
        ret = None
        try:
            ret = orig(line)
            return ret
        except Exception as e:
            exc = e
            raise
        finally:
            events.append(snapshot(p, line, ret, exc, cap))

    p._consider_line = wrapped

    def undo():
        try:
            del p._consider_line
        except Exception:
            pass

    return undo


ERRLINE = __import__("re").compile(r"^\[[^\]]*\] Line \d+: ")     # what ErrorHandler sends to the printers under 'print'


HARNESS_FAILURES = []      # tracebacks of failures of the harness's own observation code (never raised into the implementation)


def harness_failed(where):
    import traceback

    HARNESS_FAILURES.append(f"{where}:\n{traceback.format_exc()}")


def check_harness():
    """called after every unit of work: a failure of the observation code is a machinery failure (exit 2), not a verdict"""
    if HARNESS_FAILURES:
        from .tlc import MachineryError

        raise MachineryError("the harness's observation code failed (a hook point or attribute it reads is gone?):\n" + HARNESS_FAILURES[0][-1500:])


def snapshot(p, line, ret, exc, cap):
    """the observable state after one _consider_line call. Runs inside the implementation's call stack (the wrappers' finally
    blocks): it must not raise there - the implementation would handle the exception as one of its own."""
    try:
        return _snapshot(p, line, ret, exc, cap)
    except Exception:  # noqa
        harness_failed("runner.snapshot")
        return {"k": -1, "line": [], "ret": ret, "exc": None, "scan_count": -1, "match_count": -1, "stopped": False, "advance": 0, "valid": True,
                "vars": {}, "votes": None, "nprinted": 0, "nerrmsgs": 0, "nerrors": 0, "errcalls": 0, "errlines": []}


def _snapshot(p, line, ret, exc, cap):
    lm = p.line_monitor
    nerr = cap.errmsgs
    if nerr > getattr(cap, "_err_lines", 0):
        cap._err_calls = getattr(cap, "_err_calls", 0) + 1
    cap._err_lines = nerr
    votes = None
    if p.matcher is not None:
        votes = [e[1] for e in p.matcher.expressions]
    return {
        "k": lm.physical_line_number,
        "line": list(line),
        "ret": ret,
        "exc": type(exc).__name__ if exc else None,
        "scan_count": p.scan_count,
        "match_count": p.match_count,
        "stopped": p.stopped,
        "advance": p.advance_count,
        "valid": p.is_valid,
        "vars": _copy_vars(p.variables),
        "votes": votes,
        "nprinted": len(cap.lines),
        "nerrmsgs": cap.errmsgs,
        "nerrors": len(p.errors) if p.errors else 0,
        "errcalls": getattr(cap, "_err_calls", 0),
        "errlines": [int(e.line_count) if isinstance(getattr(e, "line_count", None), int) else -99 for e in (p.errors or [])] if isinstance(p.errors, list) else [],
    }


def _copy_vars(v):
    return json.loads(json.dumps(v, default=_jsonable)) if _json_ok(v) else _deep(v)


def _json_ok(v):
    return False


def _deep(v):
    if isinstance(v, dict):
        return {k: _deep(x) for k, x in v.items()}
    if isinstance(v, list):
        return [_deep(x) for x in v]
    if isinstance(v, tuple):
        return tuple(_deep(x) for x in v)
    return v


def _jsonable(o):
    return str(o)
