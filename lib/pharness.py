"""Harness for CsvPaths-level runs: scratch project, fake clock, archive projection."""
import csv
import datetime as _dt
import hashlib
import json
import os

from . import runner, scratch

BASE_DAY = _dt.datetime(2026, 1, 5, 0, 0, 0, tzinfo=_dt.timezone.utc)

METHODS = ["collect_paths", "fast_forward_paths", "next_paths", "collect_by_line", "fast_forward_by_line", "next_by_line"]


class FakeClock:
    """Replaces csvpath.csvpaths.datetime so that run directories are named after the spec's clock."""

    def __init__(self):
        self.t = 0
        self._orig = None

    def install(self):
        import csvpath.csvpaths as mod

        clock = self
        real = _dt.datetime

        class FakeDateTime(real):
            @classmethod
            def now(cls, tz=None):
                return BASE_DAY + _dt.timedelta(seconds=clock.t)

        self._orig = mod.datetime
        mod.datetime = FakeDateTime

    def uninstall(self):
        import csvpath.csvpaths as mod

        if self._orig is not None:
            mod.datetime = self._orig
            self._orig = None

    @staticmethod
    def stamp(t):
        return (BASE_DAY + _dt.timedelta(seconds=t)).strftime("%Y-%m-%d_%H-%M-%S")


def new_csvpaths(**kw):
    from csvpath import CsvPaths

    return CsvPaths(**kw)


def run_method(cp, method, pathsname, filename, **kw):
    """Run one of the six named-paths methods to completion. Returns the lines the caller receives."""
    m = getattr(cp, method)
    if method in ("next_paths", "next_by_line"):
        kw.setdefault("collect", True)
        return list(m(pathsname=pathsname, filename=filename, **kw))
    r = m(pathsname=pathsname, filename=filename, **kw)
    return r


def tree_hashes(root):
    """relative path -> sha256 for every file under root"""
    out = {}
    for d, _, files in os.walk(root):
        for fn in files:
            p = os.path.join(d, fn)
            with open(p, "rb") as f:
                out[os.path.relpath(p, root)] = hashlib.sha256(f.read()).hexdigest()
    return out


def run_dirs(archive, group):
    g = os.path.join(archive, group)
    if not os.path.isdir(g):
        return []
    return sorted(n for n in os.listdir(g) if os.path.isdir(os.path.join(g, n)))


def read_json(path):
    with open(path) as f:
        return json.load(f)


def read_csv(path, delimiter=",", quotechar='"'):
    if not os.path.exists(path):
        return None
    with open(path, newline="") as f:
        return [row for row in csv.reader(f, delimiter=delimiter, quotechar=quotechar)]


def project_member(member_dir, delimiter=",", quotechar='"'):
    """Parsed meaning of one member's result directory (the line files are in the run's dialect)."""
    out = {"files": sorted(os.listdir(member_dir)) if os.path.isdir(member_dir) else None}
    if out["files"] is None:
        return out
    for name in ("meta.json", "vars.json", "errors.json", "manifest.json"):
        p = os.path.join(member_dir, name)
        if os.path.exists(p):
            try:
                out[name] = read_json(p)
            except Exception as e:  # unreadable is an observation
                out[name] = f"UNREADABLE {type(e).__name__}"
    out["data.csv"] = read_csv(os.path.join(member_dir, "data.csv"), delimiter, quotechar)
    out["unmatched.csv"] = read_csv(os.path.join(member_dir, "unmatched.csv"), delimiter, quotechar)
    p = os.path.join(member_dir, "printouts.txt")
    if os.path.exists(p):
        with open(p) as f:
            out["printouts.txt"] = f.read()
    return out
