#!/bin/sh
# Offline setup: nothing is downloaded. Syntax-check every specification module and prepare directories.
set -e
cd "$(dirname "$0")"
mkdir -p out evidence
cd spec
for f in *.tla; do
  case "$f" in _gen_*) continue;; esac
  tla-sany "$f" > /dev/null 2>&1 || { echo "SANY failed on $f"; tla-sany "$f" | tail -20; exit 1; }
done
echo "setup ok"
