#!/bin/sh
# Offline setup: nothing is downloaded. Syntax-check every specification module and prepare directories.
set -e
cd "$(dirname "$0")"
mkdir -p out evidence
cd spec
for f in *.tla; do
  case "$f" in _gen_*) continue;; esac
  if grep -q "^EXTENDS.*Apalache" "$f"; then
    # typed wrapper for the symbolic checker: its standard module is not on SANY's path
    apalache-mc typecheck --out-dir=/dev/shm/apa-setup "$f" > /dev/null 2>&1 || { echo "apalache typecheck failed on $f"; exit 1; }
    rm -rf /dev/shm/apa-setup
    continue
  fi
  tla-sany "$f" > /dev/null 2>&1 || { echo "SANY failed on $f"; tla-sany "$f" | tail -20; exit 1; }
done
echo "setup ok"
