"""C16 — print() emits its text verbatim with references replaced by current values.

Spec: spec/Print.tla (template = sequence of text / reference items; Emitted = concatenation with
each reference replaced by the current value), used by Eval.tla's print clause (once / onmatch).
TLC: spec/MC_Print.tla enumerates every arrangement of up to MaxItems items (text chunk shapes x
reference kinds; adjacent, separated, at start/end), checks TextOnly and NothingLost, and emits each
with its expected output; each is replayed as a real print() in a fixed context (direction A).
Direction B: generated csvpaths whose print templates reference variables assigned before/after
the print on the same line, tracking keys, stacks, headers, metadata and runtime fields are
validated line by line by RunTrace (printed compared after every line)."""
import json
import os

from checks import runfam
from lib import common, lang, runner, scratch
from lib.tlc import run_tlc, require_ok, MachineryError

PID = "C16"
JUDGED = {"printed", "final_printed"}
ROWS = [["ha", "hb"], ["L0", " L1 "]]


def classify(info, verdict):
    if info.get("adjacent_refs"):
        return "C16-adjacent-references"
    return None


def _replay(rec):
    d = scratch.scratch_dir() or scratch.enter_scratch()
    path = os.path.join(d, "p.csv")
    runner.write_csv(path, ROWS)
    tmpl = lang.render_template(rec["tmpl"])
    text = f'~ title: T ~ ${path}[1][ @x = 5 @t.k = "v" push("s", "a") push("s", "b") print("{tmpl}") ]'
    out = runner.run_standalone(text, method="collect")
    exp = "".join(chr(c) for c in rec["out"])
    got = out["printed"]
    if out["raised"] or got != [exp]:
        return {"kind": "print-arrangement", "template": tmpl, "expected": [exp], "got": got, "raised": out["raised"],
                "adjacent": rec["adjacent"], "csvpath": text.replace(path, "p.csv"), "file_records": ROWS}
    return None


def arrangements(rep, tier):
    n = 2 if tier == "quick" else 3
    name = "_gen_MC_Print.cfg"
    with open(os.path.join(common.VERIF, "spec", name), "w") as f:
        f.write(f"CONSTANT MaxItems = {n}\nINIT Init\nNEXT Next\nINVARIANT TextOnly\nINVARIANT NothingLost\nINVARIANT Emit\nCHECK_DEADLOCK FALSE\n")
    res = require_ok(run_tlc("MC_Print", name, timeout=900, keep_stdout=False), "MC_Print")
    rep.add_tlc(f"MC_Print: all arrangements of <= {n} items (7 text shapes, 9 reference kinds)", res)
    if res.invariant_violated:
        rep.violation({"kind": "spec", "invariant": res.invariant_violated})
        return
    seen = set()
    recs = []
    for r in res.records:
        key = json.dumps(r["tmpl"], sort_keys=True)
        if key not in seen:
            seen.add(key)
            recs.append(r)
    bad = common.pmap(_replay, recs, initializer=scratch.enter_scratch)
    for d in bad:
        if d is not None:
            rep.violation(d, finding="C16-adjacent-references" if d["adjacent"] else None)
    rep.extra["arrangements_replayed"] = len(recs)
    rep.evaluations += len(recs)


def main(tier):
    n = 1200 if tier == "quick" else 15000
    return runfam.run(PID, tier, groups=("core", "print"), judged=JUDGED, ncases=n, seed_salt=1600, classify=classify,
                      pre=lambda rep: arrangements(rep, tier))


def replay(path):
    return runfam.replay(path, PID)
