"""C03 — variables and run counters end up with the values the csvpath assigns."""
from checks import runfam, mcrun, repotraces

PID = "C03"
JUDGED = {"vars", "scan_count", "match_count", "final_vars", "final_match_count", "final_scan_count", "printed", "final_printed"}


def main(tier):
    n = 2000 if tier == "quick" else 20000
    return runfam.run(PID, tier, groups=("core", "stateful", "print", "assignq"), judged=JUDGED, ncases=n, seed_salt=7919, pre=lambda rep: (mcrun.run_pool(rep, tier, {"vars", "matchCount", "scanCount", "printed"}, PID), repotraces.run(rep, tier, JUDGED, PID)))


def replay(path):
    return runfam.replay(path, PID)
