"""C05 — errors in match components are handled exactly as the error policy says.

Spec: spec/ErrorPolicy.tla (Eff, Handle in handler order), closed instance spec/MC_ErrorPolicy.tla:
all 64 policies x validation-mode overrides x 6 error kinds x every non-empty set of offending
lines; TLC checks the property's five iff-clauses (RaiseIff, CollectIff, FailIff, PrintIff, StopIff)
plus ReachIff/NoMatchOnError/GoodLinesReturned against the handler-order action, and every
behaviour is replayed through a real CsvPath configured through a generated config.ini."""
import json
import os

from lib import common, scratch, runner
from lib.tlc import run_tlc, require_ok, MachineryError

PID = "C05"
INVS = ["RaiseIff", "CollectIff", "EveryErrorHandled", "FailIff", "PrintIff", "StopIff", "ReachIff", "NoMatchOnError", "GoodLinesReturned"]
ORDER = ["raise", "collect", "stop", "fail", "print", "quiet"]
COMPONENT = {
    "argtop": ("add(#1, 1)", "x"),
    "argval": ("@v = add(#1, 1)", "x"),
    "rule": ('@v = substring("abcdef", int(#1))', "-1"),
    "pyexc": ("@v = mod(5, #1)", "0"),
    "nested": ("not(below(add(#1, 1), 3))", "x"),
    "rhs": ("yes() -> @v = add(#1, 1)", "x"),
}
# more concrete shapes per abstract error kind: (component, offending cell). The good cell is "2". A shape is used only if a
# probe at the start of the check shows that it behaves as its kind says on the current tree (good cell: the line matches and
# nothing is raised or collected; offending cell: exactly one error for the component under 'collect', an exception under 'raise').
CANDIDATES = {
    "argtop": [("add(#1, 1)", "x"), ("subtract(#1, 1)", "x"), ("multiply(#1, 2)", "x"), ("sum.s(#1)", "x"), ("mod(#1, 3)", "x"),
               ("int(#1)", "x"), ("add(1, #1, 1)", "q")],
    "argval": [("@v = add(#1, 1)", "x"), ("@v = subtract(5, #1)", "x"), ("@v = multiply(#1, #1)", "x"), ("@v = int(#1)", "zz"),
               ("@v = mod(#1, 2)", "x"), ("@v.k = add(#1, 1)", "x"), ("@v = subtotal.st(#0, #1)", "x")],
    "rule": [('@v = substring("abcdef", int(#1))', "-1"), ('@v = substring("abcdef", #1)', "-3")],
    "pyexc": [("@v = mod(5, #1)", "0"), ("@v = mod(add(3, 4), #1)", "0")],
    "nested": [("not(below(add(#1, 1), 3))", "x"), ("not(empty(subtract(#1, 1)))", "x"), ("or(no(), above(add(#1, 1), 0))", "x")],
    "rhs": [("yes() -> @v = add(#1, 1)", "x"), ('yes() -> push("s", add(#1, 1))', "x"), ("exists(#0) -> @v = mod(5, #1)", "0"),
            ("yes() -> @v = int(#1)", "x")],
}
SHAPES = {k: [v] for k, v in COMPONENT.items()}     # filled by probe_shapes()


def _probe(args):
    kind, comp, badcell = args
    d = scratch.scratch_dir() or scratch.enter_scratch()
    path = os.path.join(d, "probe.csv")
    res = {}
    for label, cell, policy in (("good", "2", "collect"), ("bad_collect", badcell, "collect"), ("bad_raise", badcell, "raise")):
        runner.write_csv(path, [["r0", "2"], ["r1", cell]])
        scratch.set_policy(policy)
        events = []
        out = runner.run_standalone(f"${path}[*][ {comp} ]", method="collect", events=events)
        p = out["csvpath"]
        res[label] = {"raised": out["raised"] is not None, "returned": [e["k"] for e in events if e["ret"]],
                      "errors": sorted(e.line_count for e in (p.errors or []))}
    ok = (not res["good"]["raised"] and res["good"]["returned"] == [0, 1] and res["good"]["errors"] == []
          and not res["bad_collect"]["raised"] and res["bad_collect"]["returned"] == [0]
          and (res["bad_collect"]["errors"] == [1] or (kind == "nested" and res["bad_collect"]["errors"] and set(res["bad_collect"]["errors"]) == {1}))
          and res["bad_raise"]["raised"])
    return kind, comp, badcell, ok


def probe_shapes(rep):
    items = [(k, c, b) for k, lst in CANDIDATES.items() for (c, b) in lst]
    outs = common.pmap(_probe, items, initializer=scratch.enter_scratch, chunksize=1)
    used, rejected = {}, []
    for kind, comp, badcell, ok in outs:
        if ok:
            used.setdefault(kind, []).append((comp, badcell))
        else:
            rejected.append(comp)
    for k in COMPONENT:
        if COMPONENT[k] not in used.get(k, []):
            used.setdefault(k, []).insert(0, COMPONENT[k])
    SHAPES.update(used)
    rep.extra["error_shapes_used"] = {k: [c for c, _ in v] for k, v in used.items()}
    rep.extra["error_shapes_not_behaving_as_their_kind"] = rejected


def _cfg(nlines, overrides):
    inv = "\n".join(f"INVARIANT {i}" for i in INVS + ["Emit"])
    return f'CONSTANT NLines = {nlines}\nCONSTANT Overrides = "{overrides}"\nCONSTANT MaxComps = 2\nINIT Init\nNEXT Next\n{inv}\nCHECK_DEADLOCK FALSE\n'


def _vm_comment(vm):
    if not vm:
        return ""
    parts = []
    for f, b in sorted(vm.items()):
        parts.append(f if b else "no-" + f)
    return "~ validation-mode: " + ", ".join(parts) + " ~ "


def _replay(rec):
    d = scratch.scratch_dir() or scratch.enter_scratch()
    policy = [f for f in ORDER if f in rec["policy"]]
    vm = rec["vm"] if isinstance(rec["vm"], dict) else {}
    shapes = rec.get("_shapes") or [COMPONENT[rec["kind"]]]
    comp, badcell = shapes[rec.get("_idx", 0) % len(shapes)]
    n = rec["nlines"]
    rows = [["r%d" % i, badcell if i in rec["bad"] else "2"] for i in range(n)]
    path = os.path.join(d, "f.csv")
    runner.write_csv(path, rows)
    comps = [comp] + [comp.replace("@v", f"@v{i}") for i in range(1, rec.get("ncomp", 1))]
    text = f"{_vm_comment(vm)}${path}[*][ {' '.join(comps)} ]"
    cfgobj = None
    if policy:
        scratch.set_policy(", ".join(policy))
    else:
        # the loader rejects an empty policy: set it on a Config object handed to the constructor
        scratch.set_policy("collect")
        from csvpath.util.config import Config

        cfgobj = Config()
        cfgobj.csvpath_errors_policy = []
    events = []
    out = runner.run_standalone(text, method="collect", events=events, config=cfgobj)
    p = out["csvpath"]
    errs = list(p.errors or [])
    got = {
        "considered": len(events),
        "returned": [e["k"] for e in events if e["ret"]],
        "error_lines": sorted({e.line_count for e in errs}),
        "error_counts": {str(k): sum(1 for e in errs if e.line_count == k) for k in sorted({e.line_count for e in errs})},
        "valid": bool(p.is_valid),
        "raised": out["raised"] is not None,
        "raised_class": out["raised"],
        "printed_lines": sorted({e["k"] for i, e in enumerate(events) if e["nerrmsgs"] > (events[i - 1]["nerrmsgs"] if i else 0)}),
        "stopped": bool(p.stopped),
    }
    exp = {
        "considered": rec["considered"],
        "returned": rec["returned"],
        "error_lines": sorted(set(rec["errors"])),
        "valid": rec["valid"],
        "raised": rec["raised"],
        "printed_lines": sorted(set(rec["printed"])),
    }
    bad = [k for k in exp if got[k] != exp[k]]
    # one record per raised error (kinds that raise exactly one error per component), at least that many for nested errors
    for ln in set(rec["errors"]):
        want = sum(1 for x in rec["errors"] if x == ln)
        have = got["error_counts"].get(str(ln), 0)
        if (have != want and rec["kind"] != "nested") or have < want:
            bad.append(f"error_count_line_{ln}: {have} != {want}")
    if rec["considered"] < n and got["stopped"] != (rec["stopped"] or False) and not rec["raised"]:
        bad.append("stopped")
    if rec["raised"] and got["raised_class"] not in (None, "MatchException"):
        bad.append("raised_class")
    if bad:
        return {"kind": "errorpolicy", "fields": bad, "csvpath": text.replace(path, "f.csv"), "file_records": rows,
                "policy": policy, "validation_mode": vm, "error_kind": rec["kind"], "expected": exp, "got": got,
                "raised_msg": out.get("raised_msg")}
    return None


def classify(d):
    return None


from checks.errruns import error_runs, ERR_JUDGED      # the error handler inside whole runs (shared with C04)


def main(tier):
    rep = common.Report(PID, tier)
    nlines, overrides = (2, "single") if tier == "quick" else (4, "single")
    name = "_gen_MC_ErrorPolicy.cfg"
    with open(os.path.join(common.VERIF, "spec", name), "w") as f:
        f.write(_cfg(nlines, overrides))
    res = require_ok(run_tlc("MC_ErrorPolicy", name, timeout=1500, keep_stdout=False), "MC_ErrorPolicy")
    rep.add_tlc(f"MC_ErrorPolicy NLines={nlines} overrides={overrides}", res)
    if res.invariant_violated:
        rep.violation({"kind": "spec", "invariant": res.invariant_violated, "tail": res.stdout[-1500:]})
        return rep.finish()
    recs = res.records
    if not recs:
        raise MachineryError("MC_ErrorPolicy emitted nothing")
    probe_shapes(rep)
    for i, r in enumerate(recs):
        r["nlines"] = nlines
        r["_shapes"] = SHAPES[r["kind"]]
        r["_idx"] = i * 7 + common.seed()
    bad = common.pmap(_replay, recs, initializer=scratch.enter_scratch)
    rep.traces = len(recs)
    rep.evaluations = len(recs)
    for r in recs:
        rep.nontrivial_case((tuple(sorted(r["policy"])), json.dumps(r["vm"], sort_keys=True), r["kind"], tuple(r["bad"]), r.get("ncomp", 1)))
    for r in recs[:: max(1, len(recs) // 4)][:4]:
        rep.sample({k: r[k] for k in ("policy", "vm", "kind", "bad", "considered", "returned", "errors", "valid", "raised")})
    for d in bad:
        if d is not None:
            rep.violation(d, finding=classify(d))
    error_runs(rep, tier, ERR_JUDGED, groups=("core", "errors", "validity", "control"))
    from checks import errgroup

    errgroup.run(rep, tier, {"member_valid", "errors", "raised", "status"})
    rep.exhaustive = True
    rep.extra["policies"] = 64
    rep.extra["error_kinds"] = sorted(COMPONENT)
    rep.rule = (f"TLC enumerates all 64 subsets of the policy flags x validation-mode overrides ({overrides}: none + each single "
                f"flag on/off; match/no-match only for built-in argument validation on the component itself) x 6 error kinds x every non-empty "
                f"set of offending lines of a {nlines}-line file; each behaviour is replayed with the policy written to config.ini. "
                "every case is non-trivial (it contains an error).")
    rep.assumptions = ["TLC; ErrorPolicy.tla", "the offending component is the only component; good lines match",
                       "printed/collected are judged per line (at least one record per offending line), not by exact count"]
    return rep.finish()


def replay(path):
    with open(path) as f:
        print(f.read()[:3000])
    return 0
