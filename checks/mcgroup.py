"""The closed instance of the joint group machine (spec/MC_GroupRun.tla): a pool of small groups enumerated from member
templates (filters, bookkeeping, the four cross-path signals) x small files x the six run methods x both agreement modes is
explored by TLC with the joint properties as invariants / action properties, and every terminal state is replayed into the real
CsvPaths (direction A): members started, each member's verdict, stop state, counters, variables and returned records, the
records handed to the caller, and the run manifest's all_valid."""
import itertools
import json
import os
import random

from checks import jointrun, mcrun
from lib import common, grouprun, lang as L, pharness, runtrace, scratch
from lib.runner import OutOfModel
from lib.tlc import run_tlc, require_ok, MachineryError

METHODS = jointrun.SERIAL + jointrun.BYLINE


def member_templates():
    ln = lambda n: L.eq(L.fn("line_number"), L.term(n))     # noqa: E731
    return [
        lambda: [L.hdr(0)],
        lambda: [L.eq(L.hdr(1), L.term("a"))],
        lambda: [L.fn("yes")],
        lambda: [L.when(L.hdr(0), L.fn("push", L.term("s"), L.hdr(1)))],
        lambda: [L.assign(L.var("c"), L.fn("count_lines")), L.hdr(1)],
        lambda: [L.fn("counter", quals=["ct"])],
        lambda: [L.when(L.fn("above", L.hdr(0), L.term(1)), L.fn("stop"))],
        lambda: [L.when(L.eq(L.hdr(1), L.term("b")), L.fn("fail"))],
        lambda: [L.when(L.fn("empty", L.hdr(0)), L.fn("skip")), L.fn("push", L.term("p"), L.fn("line_number"))],
        # the cross-path signals
        lambda: [L.when(L.eq(L.hdr(1), L.term("b")), L.fn("fail_all"))],
        lambda: [L.when(ln(1), L.fn("fail_all")), L.hdr(0)],
        lambda: [L.when(ln(0), L.fn("stop_all"))],
        lambda: [L.when(L.eq(L.hdr(0), L.term(2)), L.fn("stop_all")), L.fn("push", L.term("q"), L.hdr(0))],
        lambda: [L.when(ln(1), L.fn("skip_all")), L.fn("counter", quals=["k"])],
        lambda: [L.when(L.eq(L.hdr(1), L.term("a")), L.fn("skip_all"))],
        lambda: [L.when(ln(0), L.fn("advance_all", L.term(1))), L.fn("counter", quals=["a"])],
        lambda: [L.when(L.hdr(0), L.fn("advance_all", L.term(2)))],
        lambda: [L.fn("valid"), L.when(L.fn("failed"), L.fn("push", L.term("f"), L.fn("line_number")))],
    ]


NSIG = 9      # the first NSIG templates raise no cross-path signal


def pool(tier, seed, signals=True):
    rng = random.Random(seed)
    ts = member_templates()
    if not signals:
        ts = ts[:NSIG] + [lambda: [L.fn("stop", L.eq(L.hdr(1), L.term("b")))], lambda: [L.fn("skip", L.fn("empty", L.hdr(0))), L.hdr(1)],
                          lambda: [L.when(L.hdr(1), L.fn("advance", L.term(1))), L.fn("counter", quals=["v"])],
                          lambda: [L.fn("fail_and_stop", L.fn("not", L.hdr(0)))], lambda: [L.fn("no")],
                          lambda: [L.when(L.fn("last"), L.fn("push", L.term("l"), L.fn("line_number")))]]
    fl = mcrun.files(3)
    nm_choices = [2] if tier == "quick" else [2, 2, 3]
    n_groups = 300 if tier == "quick" else 3000
    cases = []
    tid = 0
    seen = set()
    pairs = list(itertools.product(range(len(ts)), repeat=2))
    rng.shuffle(pairs)
    for gi in range(n_groups):
        nm = rng.choice(nm_choices)
        idxs = list(pairs[gi % len(pairs)]) + ([rng.randrange(len(ts))] if nm == 3 else [])
        for _ in range(2 if tier == "quick" else 3):
            f = rng.choice(fl)
            method = rng.choice(METHODS)
            agree = rng.random() < 0.5 if method in jointrun.BYLINE else False
            key = (tuple(idxs), json.dumps(f), method, agree)
            if key in seen:
                continue
            seen.add(key)
            members = []
            for ti in idxs:
                prog = {"scan": rng.choice([L.scan("all"), L.scan("all"), L.scan("from", 1), L.scan("range", 0, 1)]), "comps": ts[ti](), "meta": []}
                prog["initVars"] = L.init_vars(prog)
                cfg = {"AND": True, "noMatches": False, "keepUnmatched": False, "collecting": method in ("collect_paths", "collect_by_line", "next_paths", "next_by_line"),
                       "noRun": False, "nexts": 0, "noDefaultPrint": False}
                members.append({"prog": prog, "cfg": cfg})
            cases.append({"tid": tid, "kind": "serial" if method in jointrun.SERIAL else "byline", "allAgree": bool(agree),
                          "coordinated": method not in ("collect_paths", "fast_forward_paths"), "signals": bool(signals), "records": f, "members": members, "method": method})
            tid += 1
    return cases


def tlc_pool(cases, dev=()):
    base = scratch._base()
    path = os.path.join(base, f"gpool-{os.getpid()}-{len(dev)}.ndjson")
    with open(path, "w") as f:
        for c in cases:
            f.write(json.dumps({"tid": c["tid"], "kind": c["kind"], "allAgree": c["allAgree"], "coordinated": c["coordinated"], "signals": c["signals"], "file": L.enc_file(c["records"]),
                                "members": [{"prog": runtrace.strip_private(m["prog"]), "cfg": m["cfg"]} for m in c["members"]]}, separators=(",", ":")) + "\n")
    devs = "{" + ", ".join(f'"{d}"' for d in sorted(dev)) + "}"
    name = f"_gen_MC_GroupRun_{os.getpid()}_{len(dev)}.cfg"
    with open(os.path.join(common.VERIF, "spec", "MC_GroupRun.cfg")) as f:
        cfg = f.read().replace("CONSTANT Dev = {}", f"CONSTANT Dev = {devs}")
    with open(os.path.join(common.VERIF, "spec", name), "w") as f:
        f.write(cfg)
    try:
        res = run_tlc("MC_GroupRun", name, env={"POOL_FILE": path}, timeout=3000, keep_stdout=False)
    finally:
        for p in (path, os.path.join(common.VERIF, "spec", name)):
            try:
                os.remove(p)
            except OSError:
                pass
    return require_ok(res, "MC_GroupRun")


def _run_real(case):
    scratch.scratch_dir() or scratch.enter_scratch()
    texts = [grouprun.member_text(m, ident=f"m{i}") for i, m in enumerate(case["members"])]
    rec = grouprun.Recorder()
    raised, got = None, None
    with scratch.silence():
        cp = grouprun.setup_project(f"gp{case['tid']}", case["records"], {"g": texts})
        try:
            rec.install()
            try:
                kw = {"if_all_agree": case["allAgree"]} if case["kind"] == "byline" else {}
                got = pharness.run_method(cp, case["method"], "g", "data", **kw)
            except Exception as e:
                raised = f"{type(e).__name__}: {e}"[:300]
        finally:
            rec.uninstall()
    info = {"texts": texts, "records": case["records"], "method": case["method"], "if_all_agree": case["allAgree"]}
    if raised:
        return case["tid"], {"raised": raised}, info
    try:
        members = []
        for m in rec.members:
            p = m["p"]
            members.append({"valid": bool(p.is_valid), "stopped": bool(p.stopped), "matchCount": p.match_count, "scanCount": p.scan_count,
                            "vars": runtrace._norm_vars(p.variables), "returned": [e["k"] for e in m["events"] if e["ret"]]})
    except OutOfModel:
        return case["tid"], None, info
    yielded = None
    if case["method"] in ("collect_by_line", "next_by_line") and got is not None:
        yielded = []
        for ln in got:
            hit = rec.line_objs.get(id(ln))
            yielded.append(hit[0] if hit else -1)
    archive = cp.config.archive_path
    rds = pharness.run_dirs(archive, "g")
    man = pharness.read_json(os.path.join(archive, "g", rds[-1], "manifest.json")) if rds else {}
    return case["tid"], {"started": len(rec.members), "members": members, "yielded": yielded, "allValid": bool(man.get("all_valid"))}, info


def _diff(got, want):
    """names of the fields that differ between the real run and the emitted terminal state"""
    out = []
    if got.get("raised"):
        return ["raised"]
    if got["started"] != want["started"]:
        out.append("started")
    for i in range(min(got["started"], want["started"])):
        g, w = got["members"][i], want["members"][i]
        for k in ("valid", "stopped", "matchCount", "scanCount", "returned"):
            if g[k] != w[k]:
                out.append(k)
        if not mcrun._vars_eq(g["vars"], w["vars"]):
            out.append("vars")
    if got["yielded"] is not None and got["yielded"] != want["yielded"]:
        out.append("yielded")
    if got["allValid"] != want["allValid"]:
        out.append("allValid")
    return sorted(set(out))


def run_pool(rep, tier, judged, pid, signals=True):
    """judged: subset of {"valid", "allValid", "started", "stopped", "matchCount", "scanCount", "returned", "vars", "yielded", "raised"}"""
    cases = pool(tier, common.seed() + 4242, signals=signals)
    res = tlc_pool(cases)
    rep.add_tlc(f"MC_GroupRun: closed pool of {len(cases)} groups (member templates incl. the cross-path signals x files of <= 3 records x 6 methods), joint properties", res)
    if res.invariant_violated:
        rep.violation({"kind": "spec", "invariant": res.invariant_violated, "tail": res.stdout[-1500:] if res.stdout else ""})
        return
    exp = {r["cid"]: r for r in res.records}
    outs = common.pmap(_run_real, cases, initializer=scratch.enter_scratch, chunksize=2)
    unjudged = 0
    with_signal_effect = 0
    for tid, got, info in outs:
        if got is None:
            continue
        want = exp.get(tid)
        if want is None:
            raise MachineryError(f"MC_GroupRun emitted no terminal state for group {tid}")
        if want["started"] < len(info["texts"]) or any(not m["valid"] for m in want["members"]):
            with_signal_effect += 1
        d = _diff(got, want)
        if not d:
            continue
        if any(k in judged for k in d):
            rep.violation({"kind": "group-pool-case", "fields": d, "expected": {k: want.get(k) for k in ("started", "yielded", "allValid")},
                           "expected_members": [{k: m[k] for k in ("valid", "stopped", "matchCount", "scanCount", "returned")} for m in want["members"]],
                           "got": got, **info})
        else:
            unjudged += 1
            rep.extra.setdefault("group_pool_mismatches_in_unjudged_fields", []).append({"fields": d, **info})
    rep.extra.update({"group_pool_with_signals": bool(signals), "group_pool_cases": len(cases), "group_pool_cases_where_a_signal_or_failure_shows": with_signal_effect, "group_pool_unjudged": unjudged})
    rep.evaluations += len(cases)
    rep.traces += len(cases)
