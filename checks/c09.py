"""C09 — the archived results of a run say what the run did.

Spec: spec/Archive.tla (run lifecycle: StartRun, AddResult, Save, CompleteRun, Abort; serial vs
breadth-first ordering; CompleteMeansAllSaved, SaveAfterAdd, AbortLeavesRecords, AbortedStaysAborted
checked by TLC) and spec/ArchiveTrace.tla, which replays the recorded ResultsManager calls of a
real run as Archive actions and then requires the projection of the archive (vars.json,
errors.json, printouts.txt, data.csv, unmatched.csv, member manifests with recomputed
fingerprints, run manifest) to agree with the in-memory results (CompleteDiff)."""
import json
import os
import random

from lib import archiverun, common, gen, grouprun, lang, pharness, runtrace, scratch
from lib.runner import OutOfModel
from lib.tlc import run_tlc, require_ok, MachineryError

PID = "C09"


def _work(args):
    seed, gi, quick = args
    rng = random.Random(seed * 100019 + gi)
    grp = gen.make_group(rng, gi, groups=("core", "control", "validity", "print"), modes=True)
    members = grp["members"]
    records = grp["records"]
    if not records:
        records = [["a", "1"]]
    # cells with quotes, delimiters and newlines (beyond the typed columns, so programs stay well-typed)
    nasty = ['q"uote', "com,ma", "new\nline", "semi;colon", " sp ", "'single'"]
    records = [r + [rng.choice(nasty)] if (r and rng.random() < 0.5) else r for r in records]
    idents = [f"m{i}" if rng.random() < 0.7 else "" for i in range(len(members))]
    texts = [grouprun.member_text(mc, ident=idents[i] or None) for i, mc in enumerate(members)]
    # errors and early endings: a member that collects errors (the scratch policy is collect, print: nothing is raised),
    # and sometimes a first member that fails and stops at once
    early = rng.random() < 0.3
    # (an early member that fails and stops at once is followed by a member that collects errors more often than not: what the run
    # manifest sums must not depend on what earlier members already settled)
    if rng.random() < (0.8 if early else 0.5):
        j = rng.randrange(len(texts))
        boom = rng.choice(["@boom = mod(5, 0)", "line_number() == 1 -> @boom = mod(5, 0)", "@boom = mod(5, 0) @boom2 = mod(7, 0)"])
        texts[j] = texts[j][: texts[j].rindex("]")] + f" {boom} ]"
    if early:
        members = [{"prog": {"scan": lang.scan("all"), "comps": [], "initVars": [], "meta": []}, "cfg": dict(members[0]["cfg"])}] + members
        idents = ["early"] + idents
        texts = ["~ id: early ~ $data[*][ fail() stop() ]"] + texts
    # a member that never reads a record: run-mode: no-run (its results are still archived, and it is valid)
    if rng.random() < 0.3:
        cfg = dict(members[0]["cfg"])
        cfg.update({"noRun": True, "noMatches": False, "keepUnmatched": False})
        idle = {"prog": {"scan": lang.scan("all"), "comps": [lang.fn("yes")], "initVars": [], "meta": []}, "cfg": cfg}
        pos = rng.randint(0, len(members))
        members = members[:pos] + [idle] + members[pos:]
        idents = idents[:pos] + ["idle"] + idents[pos:]
        texts = texts[:pos] + ["~ id: idle run-mode: no-run ~ $data[*][ yes() ]"] + texts[pos:]
    # a member that prints to a named printout only (print's second argument): printouts.txt has that section and no default one
    if rng.random() < 0.35:
        cfg = dict(members[0]["cfg"])
        cfg.update({"noRun": False, "noMatches": False, "keepUnmatched": False})
        aud = {"prog": {"scan": lang.scan("all"), "comps": [lang.fn("yes")], "initVars": [], "meta": []}, "cfg": cfg}
        pos = rng.randint(0, len(members))
        members = members[:pos] + [aud] + members[pos:]
        idents = idents[:pos] + ["aud"] + idents[pos:]
        texts = texts[:pos] + ['~ id: aud ~ $data[*][ print("seen $.csvpath.line_number", "audit") ' + rng.choice(["", 'print.once("second stream", "errs") '])  + "]"] + texts[pos:]
    # a member that shuts the run down with stop_all() while other members follow it: under next_paths (the serial method that looks
    # at the signal) the later members never start - no directory, no result - and the run is still completed; the run manifest and
    # the results manager then speak about the members that ran (Archive!SignalStopAll, Cancelled)
    halting = rng.random() < 0.3
    if halting:
        cfg = dict(members[0]["cfg"])
        cfg.update({"noRun": False, "noMatches": False, "keepUnmatched": False})
        hm = {"prog": {"scan": lang.scan("all"), "comps": [], "initVars": [], "meta": []}, "cfg": cfg}
        pos = rng.randint(0, len(members) - 1)          # never the final member
        at = rng.choice([None, 0, 1, max(0, len(records) - 1)])
        body = "stop_all()" if at is None else f"line_number() == {at} -> stop_all()"
        members = members[:pos] + [hm] + members[pos:]
        idents = idents[:pos] + ["halt"] + idents[pos:]
        texts = texts[:pos] + [f"~ id: halt ~ $data[*][ {body} ]"] + texts[pos:]
    methods = list(pharness.METHODS)
    if halting:
        # member-major methods only: what a line-major run does with the signal is GroupRun.tla's business (judged by C04), and a member
        # that a sibling's stop_all() stops before it has considered a single record has no documented value for `completed`
        methods = [m for m in methods if m in archiverun.SERIAL]
    elif quick:
        methods = rng.sample(methods, 3)
    # the dialect of the run: data.csv / unmatched.csv parse back with it
    dia = rng.choice([{}, {}, {"delimiter": ";", "quotechar": '"'}, {"delimiter": "|", "quotechar": "'"}])
    out = []
    for wi, method in enumerate(methods):
        r = grouprun.Recorder()
        log = archiverun.CallLog(r)
        raised = None
        try:
            with scratch.silence():
                cp = grouprun.setup_project("arch", records, {"g": texts}, **dia)
                r.install()
                log.install()
                try:
                    pharness.run_method(cp, method, "g", "data")
                except Exception as e:
                    raised = f"{type(e).__name__}: {e}"
        finally:
            log.uninstall()
            r.uninstall()
        if raised:
            return {"harness": f"unexpected exception from {method}: {raised}", "texts": texts, "records": records}
        try:
            rec = archiverun.project_run(cp, "g", texts, members, records, r, log.calls, method, raised, idents)
        except OutOfModel:
            return {"oom": True}
        rec["tid"] = (gi * 10 + wi) * 2
        rec["_info"] = {"method": method, "texts": texts, "records": records, "dialect": dia}
        out.append(rec)
        if gi % 2 == 0:
            # the same group again, at once, on the same instance (more often than not within the same second): the run gets a directory
            # of its own and its archive says what THIS run did - nothing of the earlier run's lines, variables or printouts in it
            r2 = grouprun.Recorder()
            log2 = archiverun.CallLog(r2)
            raised2 = None
            try:
                with scratch.silence():
                    r2.install()
                    log2.install()
                    try:
                        pharness.run_method(cp, method, "g", "data")
                    except Exception as e:
                        raised2 = f"{type(e).__name__}: {e}"
            finally:
                log2.uninstall()
                r2.uninstall()
            if raised2:
                return {"harness": f"unexpected exception from the second {method}: {raised2}", "texts": texts, "records": records}
            try:
                rec2 = archiverun.project_run(cp, "g", texts, members, records, r2, log2.calls, method, raised2, idents)
            except OutOfModel:
                return {"oom": True}
            rec2["tid"] = (gi * 10 + wi) * 2 + 1
            rec2["_info"] = {"method": method + " (run again at once on the same instance)", "texts": texts, "records": records, "dialect": dia}
            if len(pharness.run_dirs(cp.config.archive_path, "g")) != 2:
                rec2["other_dirs"] = rec2["other_dirs"] + ["<the second run did not get a run directory of its own>"]
            out.append(rec2)
    return {"recs": out}


def validate(recs, rep, name="ArchiveTrace"):
    base = scratch._base()
    path = os.path.join(base, f"atraces-{os.getpid()}.ndjson")
    with open(path, "w") as f:
        for s in recs:
            f.write(json.dumps({k: v for k, v in s.items() if not k.startswith("_")}, separators=(",", ":")) + "\n")
    res = require_ok(run_tlc("ArchiveTrace", "ArchiveTrace.cfg", env={"TRACE_FILE": path}, timeout=1200, keep_stdout=False), name)
    os.remove(path)
    rep.add_tlc(name, res)
    if res.invariant_violated:
        raise MachineryError(f"ArchiveTrace property violated: {res.invariant_violated}\n{res.stdout[-2000:]}")
    return {v["tid"]: v for v in res.tags.get("V", [])}


def lifecycle_mc(rep):
    # serial runs with a method that looks at stop_all() before it starts a member (next_paths) and without (IMPL: collect_paths,
    # fast_forward_paths), and breadth-first runs
    for kind, honours in (("serial", True), ("serial", False), ("byline", False)):
        tag = kind + ("_halt" if honours else "")
        name = f"_gen_MC_Archive_{tag}.cfg"
        with open(os.path.join(common.VERIF, "spec", name), "w") as f:
            f.write(f'CONSTANTS\n  NMem = 3\n  Kind = "{kind}"\n  Honours = {"TRUE" if honours else "FALSE"}\nINIT AInit\nNEXT ANext\n'
                    "INVARIANT CompleteMeansAllSaved\nINVARIANT SaveAfterAdd\nINVARIANT AbortLeavesRecords\nINVARIANT CancelledIsSuffix\n"
                    "INVARIANT CancelledNeverAdded\nINVARIANT EveryRunEnds\nPROPERTY AbortedStaysAborted\nCHECK_DEADLOCK FALSE\n")
        r = require_ok(run_tlc("Archive", name, timeout=300, keep_stdout=False), f"MC_Archive {tag}")
        rep.add_tlc(f"Archive lifecycle, 3 members, {kind}" + (", stop_all() honoured" if honours else ""), r)
        if r.invariant_violated:
            rep.violation({"kind": "spec", "invariant": r.invariant_violated})
            return False
    return True


def main(tier):
    rep = common.Report(PID, tier)
    if not lifecycle_mc(rep):
        return rep.finish()
    n = 80 if tier == "quick" else 1500
    outs = common.pmap(_work, [(common.seed(), i, tier == "quick") for i in range(n)], initializer=scratch.enter_scratch, chunksize=2)
    recs, oom = [], 0
    for o in outs:
        if o.get("oom"):
            oom += 1
        elif "harness" in o:
            raise MachineryError(json.dumps(o)[:1500])
        else:
            recs += o["recs"]
    v = validate(recs, rep)
    for r in recs:
        d = v.get(r["tid"])
        if d is None:
            raise MachineryError("no verdict")
        if d["verdict"] != "ok":
            bad_m = [{"expdir": m["expdir"], "mem": {k: m["mem"][k] for k in ("valid", "errLines")},
                      "disk_manifest": m["disk"]["man"], "disk_dir": m["disk"]["dirname"]} for m in r["members"]]
            rep.violation({"kind": "archive", "verdict": d["verdict"], "at_call": d["at"], "calls": r["calls"], "run_manifest": r["run"],
                           "members": bad_m, **r["_info"]})
        if r["other_dirs"]:
            rep.violation({"kind": "archive", "verdict": "unexpected directories in the run directory", "dirs": r["other_dirs"], **r["_info"]})
    rep.traces = len(recs)
    rep.evaluations = len(recs)
    for r in recs:
        rep.nontrivial_case((json.dumps(r["_info"]["texts"]), r["_info"]["method"], json.dumps(r["_info"]["records"])))
    for r in recs[:: max(1, len(recs) // 3)][:3]:
        rep.sample({"method": r["_info"]["method"], "group": r["_info"]["texts"], "file": r["_info"]["records"], "calls": r["calls"], "run_manifest": r["run"]})
    rep.extra.update({"groups": n, "runs": len(recs), "out_of_model_groups": oom})
    rep.rule = ("groups of 1-4 generated csvpaths (with and without identity; unmatched-mode keep and return-mode no-matches on some) over a "
                "generated file with extra cells containing quotes, delimiters and newlines; each run with "
                + ("3 of the 6" if tier == "quick" else "all 6") + " run methods; runs end by stop, fail or exhaustion as the programs decide; in 30 % of the groups a non-final member raises "
                "stop_all() (member-major methods; under next_paths the later members are cancelled). "
                "non-trivial = distinct (group, method, file).")
    rep.assumptions = ["TLC; ArchiveTrace.tla", "printouts.txt is parsed by its '---- PRINTOUT:' section headers; a printed text with a line break is compared line by line",
                       "variables are compared after JSON coercion (the archive is JSON)"]
    return rep.finish()


def replay(path):
    with open(path) as f:
        print(f.read()[:4000])
    return 0
