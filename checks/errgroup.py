"""An exception that ESCAPES a member's run loop in a named-paths run (the member's matcher cannot be built: an unknown function)
is handled by the handler the CsvPaths run methods build for it, under the MEMBER csvpath's policy and validation-mode overrides:
ErrorPolicy!Handle once, on the first line. TLC (MC_ErrorPolicy, a one-line file) gives what the policy says; every behaviour whose
effective policy does not raise is replayed as a two-member group (the csvpaths-level policy is 'collect': it neither fails nor
raises) with collect_paths and collect_by_line. Judged: the member's verdict, ResultsManager.is_valid(name), the run manifest's
all_valid (C04: the conjunction of the members' verdicts) and the collected error records (C05)."""
import json
import os

from checks import c05
from lib import common, pharness, runner, scratch
from lib.tlc import run_tlc, require_ok, MachineryError


def _replay(args):
    rec, method = args
    scratch.scratch_dir() or scratch.enter_scratch()
    policy = [f for f in c05.ORDER if f in rec["policy"]]
    vm = rec["vm"] if isinstance(rec["vm"], dict) else {}
    vmtxt = ("validation-mode: " + ", ".join((f if b else "no-" + f) for f, b in sorted(vm.items()))) if vm else ""
    texts = [f"~ id: bad {vmtxt} ~ $data[*][ nosuchfn(#0) ]", "~ id: ok ~ $data[*][ yes() ]"]
    raised = None
    with scratch.silence():
        scratch.fresh_subdir("esc")
        scratch.set_policy(", ".join(policy), "collect")
        os.makedirs("src", exist_ok=True)
        runner.write_csv("src/data.csv", [["r0", "2"]])
        cp = pharness.new_csvpaths()
        cp.file_manager.add_named_file(name="data", path="src/data.csv")
        cp.paths_manager.add_named_paths(name="g", paths=texts)
        try:
            pharness.run_method(cp, method, "g", "data")
        except Exception as e:  # noqa
            raised = f"{type(e).__name__}: {e}"[:200]
        results = cp.results_manager.get_named_results("g") if not raised else []
        try:
            api = bool(cp.results_manager.is_valid("g"))
        except Exception as e:  # noqa
            api = f"raised {type(e).__name__}"
        man = {}
        rds = pharness.run_dirs(cp.config.archive_path, "g")
        if rds:
            mp = os.path.join(cp.config.archive_path, "g", rds[-1], "manifest.json")
            if os.path.exists(mp):
                man = pharness.read_json(mp)
    bad_member = next((r for r in results if r.identity_or_index == "bad"), None)
    got = {"raised": raised, "member_valid": None if bad_member is None else bool(bad_member.csvpath.is_valid),
           "errors": None if bad_member is None else len(bad_member.errors or []),
           "is_valid_api": api, "all_valid": man.get("all_valid"), "status": man.get("status")}
    exp = {"raised": None, "member_valid": rec["valid"], "errors": len(rec["errors"]), "is_valid_api": rec["valid"], "all_valid": rec["valid"],
           "status": "complete"}
    bad = [k for k in exp if got[k] != exp[k]]
    if bad:
        return {"kind": "escaping-error", "fields": bad, "method": method, "group": texts, "csvpath_policy": policy, "csvpaths_policy": ["collect"],
                "validation_mode": vm, "expected": exp, "got": got}
    return None


def run(rep, tier, judged):
    """judged: subset of {"member_valid", "is_valid_api", "all_valid", "errors", "raised", "status"}"""
    name = "_gen_MC_ErrorPolicy_esc.cfg"
    with open(os.path.join(common.VERIF, "spec", name), "w") as f:
        f.write(c05._cfg(1, "single"))
    res = require_ok(run_tlc("MC_ErrorPolicy", name, timeout=900, keep_stdout=False), "MC_ErrorPolicy one line")
    rep.add_tlc("MC_ErrorPolicy over a one-line file (what the policy says about ONE error): the oracle for exceptions that escape a member's run loop", res)
    if res.invariant_violated:
        rep.violation({"kind": "spec", "invariant": res.invariant_violated})
        return
    recs = [r for r in res.records if r.get("ncomp", 1) == 1 and r["kind"] == "pyexc" and not r["raised"] and r["policy"]]
    if not recs:
        raise MachineryError("MC_ErrorPolicy emitted no non-raising behaviour for a one-line file")
    items = [(r, ("collect_paths", "collect_by_line")[i % 2]) for i, r in enumerate(recs)]
    bad = common.pmap(_replay, items, initializer=scratch.enter_scratch, chunksize=2)
    for d in bad:
        if d is not None and any(f in judged for f in d["fields"]):
            d["fields"] = [f for f in d["fields"] if f in judged]
            rep.violation(d)
    rep.extra["escaping_error_behaviours_replayed"] = len(recs)
    rep.extra["escaping_error_behaviours_that_fail_the_member"] = sum(1 for r in recs if not r["valid"])
    rep.traces += len(recs)
    rep.evaluations += len(recs)
