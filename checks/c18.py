"""C18 — a run that aborts still leaves a truthful, readable record.

Spec: spec/Archive.tla action Abort with AbortLeavesRecords / AbortedStaysAborted /
CompleteMeansAllSaved (TLC, serial and breadth-first lifecycles), and spec/ArchiveTrace.tla's
AbortDiff: the exception reaches the caller, every member that had started is saved with readable
meta/vars/errors, the aborting member's errors.json names the aborting line and its manifest says
completed false, earlier members keep complete results (C09's agreement), the run manifest never
says complete, the input stores are unchanged. The abort point (member, line) is chosen through
the DSL: the member contains  line_number() == K -> @boom = mod(5, 0)  under validation-mode
raise. All abort points x run methods are enumerated; each aborted run is followed by a normal run
on the same instance, which must archive normally into a fresh run directory."""
import json
import os
import random

from checks import c09
from lib import archiverun, common, gen, grouprun, lang, pharness, runtrace, scratch
from lib.runner import OutOfModel
from lib.tlc import MachineryError

PID = "C18"


def _work(args):
    seed, idx, n, m, k, nrec, method, policy = args
    # the abort comes from the csvpath's own validation-mode: raise under the scratch policy, or from the configuration's error
    # policy (the shipped default: raise, collect, stop, fail, print - the handler stops and fails the csvpath before it raises)
    vm = "" if policy else " validation-mode: raise"
    rng = random.Random(seed * 7 + idx)
    fs = None
    grp = gen.make_group(rng, idx, n_members=n, groups=("core",))
    # a fixed-length all-data file so that line k exists and every member reaches it
    records = [["h1", "h2"]] + [[str(rng.randint(0, 20)), rng.choice(["a", "b", "c"])] for _ in range(nrec - 1)]
    members = []
    for i in range(n):
        g = gen.Gen(rng, _FS(records), AND=True, groups=("core",))
        prog = g.program(ncomps=rng.choice([1, 2]))
        prog["scan"] = lang.scan("from", 1)   # line 0 holds the header names
        members.append({"prog": prog, "cfg": {"AND": True, "noMatches": False, "keepUnmatched": False, "collecting": True, "noRun": False, "nexts": 0}})
    # a member that is done with the file before the abort happens (its scan ends at line 1): it started, so it has its record
    if n >= 2 and rng.random() < 0.5:
        j = rng.choice([i for i in range(n) if i != m])
        members[j]["prog"]["scan"] = lang.scan("one", 1)
    idents = [f"m{i}" for i in range(n)]
    texts = []
    # the second kind of abort ("a failure in a function"): the exception is not raised inside a match component but when the matched
    # line is handed to the caller - collect(99) keeps a header that line k does not have - so it escapes the member's run loop and the
    # run method's own handler is the only one that sees it (member-major methods; the line-major loops do not cut lines down)
    escape = method in archiverun.SERIAL and random.Random(f"escape|{seed}|{idx}").random() < 0.35
    for i, mc in enumerate(members):
        if i == m and escape:
            mc["prog"]["scan"] = lang.scan("all")
            mc["prog"]["comps"] = []
            texts.append(f"~ id: m{i}{vm} ~ $data[*][ line_number() == {k} collect(99) ]")
        elif i == m and k == 0:
            # the first line of the file is a line like any other: a member that scans it ($data[*]) can abort on it
            mc["prog"]["scan"] = lang.scan("all")
            mc["prog"]["comps"] = []
            texts.append(f"~ id: m{i}{vm} ~ $data[*][ line_number() == 0 -> @boom = mod(5, 0) ]")
        elif i == m:
            body = " ".join(lang.render(c) for c in mc["prog"]["comps"])
            texts.append(f"~ id: m{i}{vm} ~ $data[1*][ {body} line_number() == {k} -> @boom = mod(5, 0) ]")
        else:
            texts.append(grouprun.member_text(mc, ident=f"m{i}"))
    good = ['~ id: ok1 ~ $data[*][ yes() ]']
    r = grouprun.Recorder()
    log = archiverun.CallLog(r)
    raised = None
    try:
        with scratch.silence():
            cp = grouprun.setup_project("abort", records, {"g": texts, "g2": good}, policy=policy)
            before = pharness.tree_hashes("inputs")
            r.install()
            log.install()
            try:
                pharness.run_method(cp, method, "g", "data")
            except Exception as e:
                raised = f"{type(e).__name__}: {e}"[:300]
    finally:
        log.uninstall()
        r.uninstall()
    after = pharness.tree_hashes("inputs")
    # reading named-paths may append a manifest entry only when the group file changed: it did not
    stores_unchanged = before == after
    try:
        rec = archiverun.project_run(cp, "g", texts, members, records, r, log.calls, method, raised, idents, stores_unchanged)
    except OutOfModel:
        return {"oom": True}
    rec["abort"] = {"m": m + 1, "line": k}
    rec["tid"] = idx * 2
    rec["_info"] = {"method": method, "texts": texts, "records": records, "abort_member": m, "abort_line": k, "raised": raised, "escaping": escape,
                    "recorded_abort": [log.abort_member, log.abort_line]}
    aborted_dir = pharness.run_dirs(cp.config.archive_path, "g")
    aborted_tree = pharness.tree_hashes(os.path.join(cp.config.archive_path, "g"))
    # the further run is a run of another group, or of the SAME named-paths name (its csvpaths replaced by ones that do not abort)
    same_name = idx % 2 == 1
    fname = "g" if same_name else "g2"
    # ---- the follow-up run on the same instance
    r2 = grouprun.Recorder()
    log2 = archiverun.CallLog(r2)
    raised2 = None
    try:
        with scratch.silence():
            r2.install()
            log2.install()
            try:
                if same_name:
                    cp.paths_manager.add_named_paths(name="g", paths=good)
                pharness.run_method(cp, "collect_paths", fname, "data")
            except Exception as e:
                raised2 = f"{type(e).__name__}: {e}"[:300]
    finally:
        log2.uninstall()
        r2.uninstall()
    okcase = {"prog": {"scan": lang.scan("all"), "comps": [lang.fn("yes")], "initVars": []}, "cfg": members[0]["cfg"]}
    try:
        rec2 = archiverun.project_run(cp, fname, good, [okcase], records, r2, log2.calls, "collect_paths", raised2, ["ok1"])
    except OutOfModel:
        return {"oom": True}
    rec2["tid"] = idx * 2 + 1
    rec2["_info"] = {"method": "collect_paths (follow-up run after the abort)", "texts": good, "records": records, "raised": raised2}
    follow_bad = None
    now_tree = pharness.tree_hashes(os.path.join(cp.config.archive_path, "g"))
    now_dirs = pharness.run_dirs(cp.config.archive_path, "g")
    if same_name:
        # the aborted run's directory keeps every file as it was; the further run has a directory of its own next to it
        if {k: v for k, v in now_tree.items() if k.split(os.sep)[0] in aborted_dir} != aborted_tree:
            follow_bad = "the follow-up run of the same named-paths name modified the aborted run's files"
        if len(now_dirs) != len(aborted_dir) + 1 or any(d not in now_dirs for d in aborted_dir):
            follow_bad = "the follow-up run of the same named-paths name did not get a run directory of its own"
    else:
        if now_tree != aborted_tree:
            follow_bad = "the follow-up run modified the aborted run's files"
        if now_dirs != aborted_dir:
            follow_bad = "the follow-up run created a directory under the aborted group"
        if len(pharness.run_dirs(cp.config.archive_path, "g2")) != 1:
            follow_bad = "the follow-up run did not get its own run directory under its own group"
    return {"recs": [rec, rec2], "follow_bad": follow_bad}


class _FS:
    """a fixed two-column file spec (numeric, text) with a header-name row, for gen.Gen"""

    def __init__(self, records):
        self.ncols = 2
        self.kinds = ["num", "txt"]
        self.named = True
        self.names = ["h1", "h2"]
        self.minlen = 2
        self.records = records

    def cols(self, kinds, strict=False):
        return [i for i, kd in enumerate(self.kinds) if kd in kinds]

    def first_data_line(self):
        return 1


def main(tier):
    rep = common.Report(PID, tier)
    if not c09.lifecycle_mc(rep):
        return rep.finish()
    items = []
    idx = 0
    maxn, nrecs = (3, [4]) if tier == "quick" else (4, [3, 8])
    methods = ["collect_paths", "next_paths", "fast_forward_paths", "collect_by_line"] if tier == "quick" else pharness.METHODS
    for nrec in nrecs:
        for n in range(1, maxn + 1):
            for m in range(n):
                for k in range(0, nrec):       # every line is an abort point (line 0, the header-name row: a member that scans [*])
                    for method in methods:
                        for policy in (None, "raise, collect, stop, fail, print"):
                            items.append((common.seed(), idx, n, m, k, nrec, method, policy))
                            idx += 1
    outs = common.pmap(_work, items, initializer=scratch.enter_scratch, chunksize=2)
    recs = []
    oom = 0
    for o in outs:
        if o.get("oom"):
            oom += 1
            continue
        recs += o["recs"]
        if o["follow_bad"]:
            rep.violation({"kind": "abort-followup", "what": o["follow_bad"], **o["recs"][0]["_info"]})
    v = c09.validate(recs, rep, "ArchiveTrace (aborted runs and their follow-up runs)")
    for r in recs:
        d = v.get(r["tid"])
        if d is None:
            raise MachineryError("no verdict")
        if d["verdict"] != "ok":
            fid = None
            if (d["verdict"] == "abort_member_claims_completed" and "abort_line" in r["_info"]
                    and r["_info"]["abort_line"] == len(r["_info"]["records"]) - 1):
                fid = "C18-abort-on-last-scanned-line-claims-completed"
            rep.violation({"kind": "abort-record", "verdict": d["verdict"], "at_call": d["at"], "calls": r["calls"], "run_manifest": r["run"],
                           "members": [{"dir": mm["disk"]["dirname"], "errLines": mm["disk"]["errLines"], "manifest": mm["disk"]["man"]["completed"]} for mm in r["members"]],
                           **r["_info"]}, finding=fid)
    rep.traces = len(recs)
    rep.evaluations = len(recs)
    for r in recs:
        rep.nontrivial_case((r["_info"]["method"], json.dumps(r["_info"]["texts"]), r["_info"].get("abort_line")))
    for r in recs[:: max(1, len(recs) // 3)][:3]:
        rep.sample({"method": r["_info"]["method"], "group": r["_info"]["texts"], "abort": r.get("abort"), "calls": r["calls"], "run_manifest": r["run"]})
    rep.exhaustive = True
    rep.extra.update({"abort_points": len(items), "out_of_model": oom})
    rep.rule = (f"every (member index, line number) abort point in groups of 1-{maxn} generated csvpaths over files of {nrecs} records, for "
                f"{len(methods)} run methods; each aborted run followed by one further run on the same instance. non-trivial = distinct (method, group, abort line).")
    rep.assumptions = ["TLC; ArchiveTrace.tla AbortDiff", "the fault is injected through the DSL (mod(5, 0) under validation-mode raise; in a third of the member-major cases collect(99) on the aborting line: the exception is raised when the matched line is handed to the caller and escapes the member's run loop)",
                       "csvpath error policy: collect, print with validation-mode: raise on the aborting member, or the shipped default raise, collect, stop, fail, print; csvpaths policy: raise, collect"]
    return rep.finish()


def replay(path):
    with open(path) as f:
        print(f.read()[:4000])
    return 0
