"""C08 — a csvpath gives the same results alone, in a serial run and breadth-first.

Spec: spec/Group.tla — general interleaving of members with the invariant Solo (a member's results
depend on itself only) checked by TLC over all interleavings, plus a negative control with a shared
flag; the two schedules the implementation offers are step predicates (SerialStep, ByLineStep) and
the breadth-first yield rule is Keep; spec/MC_GroupRun.tla proves the same on concrete members
(SoloConcrete, YieldRule over a closed signal-free pool, negative control with signals). Binding: generated
groups and the pooled groups are run standalone, with the three serial methods and the three breadth-first
methods (with and without if_all_agree); every member's run in every way must BE its standalone run
(spec/SameRun.tla: call by call and in the final state), the global schedule of _consider_line calls and
the lines handed to the caller are validated by spec/GroupTrace.tla. What a run should be is not judged
here (the member traces are also validated against the run machine; the count is reported)."""
import itertools
import json
import os
import random

from lib import common, gen, grouprun, lang, pharness, runtrace, samerun, scratch
from lib.tlc import run_tlc, require_ok, MachineryError

PID = "C08"
SERIAL = ["collect_paths", "next_paths", "fast_forward_paths"]
BYLINE = ["collect_by_line", "next_by_line", "fast_forward_by_line"]


def _work(args):
    seed, gi, quick = args
    rng = random.Random(seed * 100003 + gi)
    grp = gen.make_group(rng, gi, groups=("core", "control", "validity"), modes=rng.random() < 0.4)      # members with return-mode / unmatched-mode
    members = grp["members"]
    order = list(range(len(members)))
    rng.shuffle(order)
    members = [members[i] for i in order]
    ways = [(m, False) for m in SERIAL] + [(m, aa) for m in BYLINE for aa in (False, True)]
    if quick:
        ways = [ways[i] for i in sorted(rng.sample(range(len(ways)), 4))]
    # the dialect of the CsvPaths instance is the dialect of every member and of the loop that reads the file line by line
    dia = rng.choice([None, None, None, {"delimiter": ";", "quotechar": '"'}, {"delimiter": "|", "quotechar": "'"}])
    return run_group_ways(members, grp["records"], gi * 1000, ways, dia=dia)


def _work_pool(case):
    """one group of MC_GroupRun's signal-free pool, run the way the pool says"""
    scratch.scratch_dir() or scratch.enter_scratch()
    return run_group_ways(case["members"], case["records"], 5000000 + case["tid"] * 100, [(case["method"], case["allAgree"])])


def run_group_ways(members, records, base, ways, dia=None):
    traces, scheds, infos = [], [], {}
    # (1) standalone
    for mi, mc in enumerate(members):
        case = {"tid": base + mi, "prog": mc["prog"], "records": records, "cfg": dict(mc["cfg"])}
        if dia:
            case["dialect"] = dia
        rec, info = runtrace.run_case(case, "collect")
        if rec is None:
            return {"oom": True}
        traces.append(rec)
        infos[rec["tid"]] = {"way": "standalone", "member": mi, "csvpath": info["csvpath"], "records": records}
    texts = [grouprun.member_text(mc, ident=f"m{mi}") for mi, mc in enumerate(members)]
    for wi, (method, all_agree) in enumerate(ways):
        r = grouprun.Recorder()
        try:
            with scratch.silence():
                cp = grouprun.setup_project("grp", records, {"g": texts}, **(dia or {}))
                r.install()
                kw = {"if_all_agree": all_agree} if method in BYLINE else {}
                out = pharness.run_method(cp, method, "g", "data", **kw)
        except Exception as e:
            import traceback

            r.uninstall()
            return {"harness": traceback.format_exc()[-1200:], "texts": texts, "records": records, "method": method}
        finally:
            r.uninstall()
        if len(r.members) != len(members):
            return {"harness": f"{len(r.members)} members created for {len(members)} csvpaths", "texts": texts, "method": method}
        collecting = method == "collect_paths"
        # the lines each member collected in this run (its own data.csv), where the method collects
        kept = None
        if method in ("collect_paths", "next_paths", "collect_by_line", "next_by_line"):
            try:
                results = cp.results_manager.get_named_results("g")
                kept = [pharness.read_csv(os.path.join(res.instance_dir, "data.csv"), **(dia or {})) or [] for res in results]
            except Exception:
                import traceback

                return {"harness": traceback.format_exc()[-1200:], "texts": texts, "records": records, "method": method}
        for mi, mc in enumerate(members):
            tid = base + 10 + wi * 10 + mi
            try:
                rec = grouprun.member_trace(tid, mc, r.members[mi], collecting=collecting, records=records)
            except runtrace.OutOfModel:
                return {"oom": True}
            if kept is not None and mi < len(kept):
                rec["final"]["lines"] = [[runtrace.txt(c) for c in l] for l in kept[mi]]
                rec["_lines"] = True
            traces.append(rec)
            infos[tid] = {"way": f"{method}{' if_all_agree' if all_agree else ''}", "member": mi, "csvpath": texts[mi],
                          "records": records, "events": [{"k": e["k"], "ret": e["ret"], "votes": e["votes"], "vars": repr(e["vars"])[:200]} for e in r.members[mi]["events"]]}
        yielded = None
        if method in ("collect_by_line", "next_by_line"):
            yielded = []
            for l in out:
                k = None
                for cand in r.line_objs.values():
                    if cand[1] is l or cand[1] == l:
                        pass
                # identity first
                hit = [v[0] for v in r.line_objs.values() if v[1] is l]
                if hit:
                    k = hit[0]
                yielded.append(-1 if k is None else k)
        scheds.append({
            "tid": base + 500 + wi, "M": len(members), "N": len(records),
            "kind": "serial" if method in SERIAL else "byline", "allAgree": bool(all_agree),
            "sched": [{"m": m + 1, "k": k, "ret": ret} for (m, k, ret) in r.schedule],
            "yielded": yielded if yielded is not None else [],
            "checkYield": yielded is not None,
            "_info": {"way": f"{method}{' if_all_agree' if all_agree else ''}", "texts": texts, "records": records},
        })
    # the relation C08 states: every member's run in every way IS its standalone run (spec/SameRun.tla)
    nm = len(members)
    same = []
    for mi in range(nm):
        mine = [t for t in traces[nm:] if (t["tid"] - base - 10) % 10 == mi]
        c = samerun.case(base + mi, traces[mi], [samerun.other(t, "same", lines=bool(t.get("_lines")), unmatched=False) for t in mine])
        c["tids"] = [t["tid"] for t in mine]
        same.append(c)
    return {"traces": traces, "scheds": scheds, "infos": infos, "same": same}


def validate_groups(scheds, rep):
    if not scheds:
        return {}
    base = scratch._base()
    path = os.path.join(base, f"gtraces-{os.getpid()}.ndjson")
    with open(path, "w") as f:
        for s in scheds:
            d = {k: v for k, v in s.items() if not k.startswith("_")}
            if not d["checkYield"]:
                d["kind"] = "serial" if d["kind"] == "serial" else "byline_noyield"
            f.write(json.dumps(d, separators=(",", ":")) + "\n")
    res = require_ok(run_tlc("GroupTrace", "GroupTrace.cfg", env={"TRACE_FILE": path}, timeout=900, keep_stdout=False), "GroupTrace")
    os.remove(path)
    rep.add_tlc("GroupTrace (recorded schedules and yields)", res)
    return {v["tid"]: v for v in res.tags.get("V", [])}


def main(tier):
    rep = common.Report(PID, tier)
    # (T) all interleavings of the abstract group; Solo; negative control must FAIL
    cfg = "MC_Group.cfg" if tier != "quick" else "_gen_MC_Group_q.cfg"
    if tier == "quick":
        with open(os.path.join(common.VERIF, "spec", cfg), "w") as f:
            f.write("CONSTANTS\n  M = 2\n  N = 3\n  Shared = FALSE\nINIT Init\nNEXT Next\nINVARIANT Solo\nCHECK_DEADLOCK FALSE\n")
    r1 = require_ok(run_tlc("Group", cfg, timeout=1500, keep_stdout=False), "MC_Group")
    rep.add_tlc("Group: all interleavings, invariant Solo", r1)
    if r1.invariant_violated:
        rep.violation({"kind": "spec", "invariant": r1.invariant_violated})
        return rep.finish()
    r2 = run_tlc("Group", "MC_GroupNeg.cfg", timeout=300, keep_stdout=False)
    rep.add_tlc("Group negative control (shared flag): Solo must fail", r2)
    if r2.invariant_violated != "Solo":
        raise MachineryError("negative control of Group.tla did not violate Solo: the hypothesis is vacuous")
    # (T+A) the same theorem on CONCRETE members: the closed pool of signal-free groups (MC_GroupRun.tla): SoloConcrete (every member ends
    # exactly as its standalone run ends, under both schedules) and YieldRule (union / intersection of the members' decisions) are TLC
    # invariants, the pool with the cross-path signals must violate SoloConcrete (negative control), and every terminal state is replayed
    # into the real CsvPaths with all six methods
    from checks import mcgroup

    neg = mcgroup.pool("quick", common.seed() + 5, signals=True)
    for c in neg:
        c["signals"] = False
    rneg = mcgroup.tlc_pool(neg)
    rep.add_tlc("MC_GroupRun negative control (groups WITH cross-path signals declared signal-free): SoloConcrete must fail", rneg)
    if rneg.invariant_violated != "SoloConcrete":
        raise MachineryError("negative control of MC_GroupRun did not violate SoloConcrete: the hypothesis is vacuous")
    pool_cases = mcgroup.pool(tier, common.seed() + 4242, signals=False)
    rpool = mcgroup.tlc_pool(pool_cases)
    rep.add_tlc(f"MC_GroupRun: closed pool of {len(pool_cases)} signal-free groups; SoloConcrete, YieldRule and the joint properties", rpool)
    if rpool.invariant_violated:
        rep.violation({"kind": "spec", "invariant": rpool.invariant_violated})
        return rep.finish()
    n = 40 if tier == "quick" else 1500
    outs = common.pmap(_work, [(common.seed(), i, tier == "quick") for i in range(n)], initializer=scratch.enter_scratch, chunksize=2)
    # the pooled groups are run for real too, each the way the pool says, and judged like the generated ones
    outs += common.pmap(_work_pool, pool_cases, initializer=scratch.enter_scratch, chunksize=4)
    traces, scheds, infos, same = [], [], {}, []
    oom = 0
    for o in outs:
        if o.get("oom"):
            oom += 1
            continue
        if "harness" in o:
            raise MachineryError(f"harness failure: {json.dumps(o)[:1500]}")
        traces += o["traces"]
        scheds += o["scheds"]
        infos.update(o["infos"])
        same += o["same"]
    for b in range(0, len(same), 4000):
        res, sv = samerun.validate(same[b:b + 4000])
        rep.add_tlc(f"SameRun: every member in every way against its standalone run, batch {b // 4000}", res)
        for c in same[b:b + 4000]:
            v = sv[c["tid"]]
            if v["verdict"] != "ok":
                w = infos.get(c["tids"][v["at"] - 1]) if 0 < v["at"] <= len(c["tids"]) else None
                rep.violation({"kind": "member-not-the-same-run", "field": v["verdict"], "at_call": v.get("expected"), "standalone": infos[c["tid"]], "in_group": w})
    # informational: the member traces against the run machine (what a run should be is C01/C03/C04/C13's business)
    rejected_n = 0
    for b in range(0, len(traces), 5000):
        res, v = runtrace.validate(traces[b:b + 5000], dev=("AboveCellsAsText", "LtIsLe"))
        rep.add_tlc(f"RunTrace member traces (informational) batch {b // 5000}", res)
        rejected_n += sum(1 for t in traces[b:b + 5000] if v[t["tid"]][0] != "ok")
    explained = set()
    gv = validate_groups(scheds, rep)
    for s in scheds:
        v = gv.get(s["tid"])
        if v is None:
            raise MachineryError("no verdict for a schedule")
        if v["verdict"] != "ok":
            rep.violation({"kind": "schedule-rejected", "verdict": v["verdict"], "at": v["at"], "expected_yield": v.get("expected"),
                           "got_yield": s["yielded"], "sched": s["sched"][:60], **s["_info"]})
    rep.traces = len(traces) + len(scheds)
    rep.evaluations = len(traces) + len(scheds)
    for s in scheds:
        rep.nontrivial_case((json.dumps(s["_info"]["texts"]), s["_info"]["way"], json.dumps(s["_info"]["records"])))
    for s in scheds[:: max(1, len(scheds) // 3)][:3]:
        rep.sample({"way": s["_info"]["way"], "group": s["_info"]["texts"], "file": s["_info"]["records"], "yielded": s["yielded"]})
    rep.extra.update({"groups": n, "member_traces": len(traces), "schedules": len(scheds), "out_of_model_groups": oom,
                      "pooled_groups_run_for_real": len(pool_cases), "member_traces_rejected_by_the_run_machine_not_judged_here": rejected_n})
    rep.rule = ("groups of 1-4 generated csvpaths (no cross-path functions, references or line rewriting) in a random order over one generated "
                "file; each run standalone, with collect_paths/next_paths/fast_forward_paths and with collect_by_line/next_by_line/"
                "fast_forward_by_line (with and without if_all_agree)" + (" [quick: 4 of the 9 ways per group]" if tier == "quick" else "")
                + "; every member's run in every way must be its standalone run (SameRun), every schedule and yield is validated by GroupTrace; the "
                "signal-free pool of MC_GroupRun is run the same way. non-trivial = distinct (group, way, file).")
    rep.assumptions = ["TLC; RunTrace/GroupTrace", "yielded lines are mapped to records by object identity of the line list",
                       "the general interleaving is checked on the specification only; the implementation offers two schedules"]
    return rep.finish()


def replay(path):
    with open(path) as f:
        print(f.read()[:4000])
    return 0
