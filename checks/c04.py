"""C04 — the validity verdict is False exactly when the csvpath failed the file.

(1) Standalone: generated csvpaths with conditional fail()/fail_and_stop()/failed()/valid() (also right of '->' with false lefts,
after skip()/stop(), under onmatch): the is_valid bit logged after every line must equal the run machine's (RunTrace), and
ValidityMonotone is checked by TLC as an action property on every validated trace.  Error-policy 'fail' is C05's.
(2) Aggregation: named-paths groups with failing members, all six run methods: ArchiveTrace requires the member manifests'
valid, the run manifest's all_valid and ResultsManager.is_valid(name) to be the conjunction of the members' verdicts.
(3) fail_all() in groups: generated groups whose members raise the cross-path signals (fail_all, stop_all, skip_all, advance_all) are run
with all six methods and validated by the joint machine spec/GroupRun.tla; C04 judges the members' validity per line, their final
verdicts and the run manifest's all_valid (the other fields of the joint run are reported in the evidence, not judged here).
The same machine has a closed instance (spec/MC_GroupRun.tla): a pool of small groups is explored exhaustively by TLC (GroupValidityMonotone,
FailAllReaches, StopAllIsFinal, YieldedInOrder, MemberInStep) and every terminal state is replayed into the real CsvPaths."""
import json

from checks import c09, runfam, mcrun, jointrun, mcgroup, repotraces, errruns, errgroup
from lib import common, scratch
from lib.tlc import MachineryError

PID = "C04"
JUDGED = {"valid", "final_valid"}
AGG = {"manifest_valid", "run_manifest_all_valid", "results_manager_is_valid"}


def aggregation(rep, tier):
    n = 25 if tier == "quick" else 600
    outs = common.pmap(c09._work, [(common.seed() + 404, i, tier == "quick") for i in range(n)], initializer=scratch.enter_scratch, chunksize=2)
    recs = []
    for o in outs:
        if "recs" in o:
            recs += o["recs"]
        elif "harness" in o:
            raise MachineryError(json.dumps(o)[:1200])
    v = c09.validate(recs, rep, "ArchiveTrace (aggregation of validity)")
    mixed = 0
    for r in recs:
        vals = [m["mem"]["valid"] for m in r["members"]]
        if len(set(vals)) > 1:
            mixed += 1
        d = v.get(r["tid"])
        if d and d["verdict"] in AGG:
            rep.violation({"kind": "validity-aggregation", "verdict": d["verdict"], "run_manifest": r["run"], "is_valid_api": r["is_valid_api"],
                           "member_verdicts": vals, **r["_info"]})
    rep.extra["aggregation_runs"] = len(recs)
    rep.extra["aggregation_runs_with_mixed_member_verdicts"] = mixed
    rep.evaluations += len(recs)


# ---- failed()/valid() report the verdict as of the current line -------------------------------------------------------------
REPORT_JUDGED = {"valid", "final_valid", "votes", "vars", "final_vars", "returned", "final_returned"}


def _report_case(args):
    """a csvpath whose only variables are reports of the verdict: conditions that fail the file (fail(), fail_and_stop(), also after a
    skip()/stop() condition) and, at any position among them, failed()/valid() as match components, pushed line by line, assigned,
    or guarding a push of the line number"""
    import random
    from lib import gen, lang as L, runtrace

    seed, tid = args
    rng = random.Random(seed * 1000003 + tid)
    fs = L.FileSpec(rng, max_rows=8, blank_p=0.15)
    AND = rng.random() < 0.7
    g = gen.Gen(rng, fs, AND=AND, groups=("core",))

    def cond():
        c = g.boolean(1)
        return g.href_any() if c["k"] == "term" else c

    comps = [L.when(cond(), L.fn(rng.choice(["fail", "fail", "fail_and_stop"]))) for _ in range(rng.choice([1, 1, 2]))]
    if rng.random() < 0.3:
        c = cond()
        comps.append(L.fn(rng.choice(["skip", "stop"]), L.fn("exists", c) if c["k"] in ("hdr", "var") else c))
    if rng.random() < 0.3:
        comps.append(cond())
    for _ in range(rng.choice([1, 2, 2, 3])):
        f = L.fn(rng.choice(["valid", "valid", "failed"]))
        comps.append(rng.choice([f, L.fn("push", L.term("vs"), f), L.assign(L.var(g.fresh("x")), f),
                                 L.when(f, L.fn("push", L.term("at"), L.fn("line_number")))]))
    rng.shuffle(comps)
    prog = {"scan": g.scan(fs.first_data_line()), "comps": comps, "meta": [], "_adjacent_refs": False, "_rewrites": False}
    prog["initVars"] = L.init_vars(prog)
    case = {"tid": tid, "prog": prog, "records": fs.records,
            "cfg": {"AND": AND, "noMatches": False, "keepUnmatched": False, "collecting": True, "noRun": False, "nexts": 0}}
    return runtrace.run_case(case, "collect")


def verdict_reports(rep, tier):
    from lib import runtrace

    n = 500 if tier == "quick" else 8000
    outs = common.pmap(_report_case, [(common.seed() + 4040, i) for i in range(n)], initializer=scratch.enter_scratch)
    recs = [r for r, _ in outs if r is not None]
    infos = {r["tid"]: i for r, i in outs if r is not None}
    res, v = runtrace.validate(recs)
    rep.add_tlc("RunTrace: failed()/valid() observed line by line around conditional fail()", res)
    rejected = [r for r in recs if v[r["tid"]][0] != "ok"]
    if rejected:
        res2, v2 = runtrace.validate(rejected, dev=("AboveCellsAsText", "LtIsLe"))
        rep.add_tlc("RunTrace: the same under the deviations of C01's listed findings", res2)
        for r in rejected:
            verdict, at, exp = v2[r["tid"]]
            if verdict != "ok" and verdict.split(":")[0] in REPORT_JUDGED:
                info = infos[r["tid"]]
                rep.violation({"kind": "verdict-report-rejected", "field": verdict, "at_event": at, "csvpath": info["csvpath"], "file_records": info["records"],
                               "expected_by_spec": exp, "impl_event": info["events"][at - 1] if 0 < at <= len(info["events"]) else None})
    rep.extra["verdict_report_runs"] = len(recs)
    rep.extra["verdict_report_runs_that_end_invalid"] = sum(1 for r in recs if not r["final"]["valid"])
    rep.evaluations += len(recs)
    rep.traces += len(recs)


def main(tier):
    n = 700 if tier == "quick" else 12000
    return runfam.run(PID, tier, groups=("core", "control", "validity"), judged=JUDGED, ncases=n, seed_salt=400,
                      pre=lambda rep: (aggregation(rep, tier), verdict_reports(rep, tier), errgroup.run(rep, tier, {"member_valid", "is_valid_api", "all_valid"}), mcrun.run_pool(rep, tier, {"valid"}, PID), repotraces.run(rep, tier, JUDGED, PID),
                                       jointrun.run(rep, tier, {"valid", "final_valid", "all_valid"}, PID, n=80 if tier == "quick" else 2500),
                                       mcgroup.run_pool(rep, tier, {"valid", "allValid"}, PID),
                                       # "... or an error is handled under a policy that includes 'fail', and once False it never returns to True"
                                       errruns.error_runs(rep, tier, JUDGED, groups=("core", "validity", "errors", "control"), n=1200 if tier == "quick" else 10000, salt=404)))


def replay(path):
    return runfam.replay(path, PID)
