"""C04 — the validity verdict is False exactly when the csvpath failed the file (standalone part)."""
from checks import runfam

PID = "C04"
JUDGED = {"valid", "final_valid"}


def main(tier):
    n = 700 if tier == "quick" else 12000
    return runfam.run(PID, tier, groups=("core", "control", "validity"), judged=JUDGED, ncases=n, seed_salt=400)


def replay(path):
    return runfam.replay(path, PID)
