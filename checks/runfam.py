"""Shared engine of the run-machine family of checks (C01, C03, C04, C07, C13, C15):
generate cases -> run the real CsvPath with per-line interposition -> TLC validates every recorded
trace against spec/RunTrace.tla (Run.tla + Eval.tla + Scan.tla + Assign.tla + Values.tla).

A trace rejected under the documented semantics (Dev = {}) is re-validated under the named
deviations that model the listed known findings; it is a KNOWN-FINDING only if one of them (or
their union) explains it completely, otherwise a VIOLATION (DESIGN 6.3).
"""
import json
import os
import random

from lib import common, gen, lang, runtrace, scratch
from lib.tlc import MachineryError

# which property a differing field belongs to (the judged projections of DESIGN 6.1)
FIELD_OWNER = {
    "k": "C01", "returned": "C01", "votes": "C01", "final_returned": "C01", "raised": "C01",
    "extra_event": "C13", "missing_event": "C13", "stopped": "C13", "advance": "C13",
    "vars": "C03", "scan_count": "C03", "match_count": "C03", "final_vars": "C03",
    "final_match_count": "C03", "final_scan_count": "C03", "printed": "C03", "final_printed": "C03",
    "valid": "C04", "final_valid": "C04", "final_unmatched": "C15", "final_lines": "C06", "headers": "C06", "final_stdout": "C15",
}

# known findings that are modelled as named deviations of Eval.tla: finding id -> deviation name
DEVIATIONS = {
    "C01-lt-answers-le": "LtIsLe",
    "C01-above-below-compare-cells-as-text": "AboveCellsAsText",
}


def field_of(verdict):
    return verdict.split(":")[0]


def _work(args):
    seed, tid, groups, methods, opts = args
    rng = random.Random(seed * 1000003 + tid)
    case = gen.make_case(rng, tid, groups=groups, **opts)
    out = []
    variants = []
    for m in methods:
        if m == "nexts":
            # collect(nexts=n) for every n in 1..matches+1 (matches measured by a plain collect first)
            probe = dict(case)
            probe["tid"] = -1
            try:
                rec0, _ = runtrace.run_case(probe, "collect")
            except Exception:
                rec0 = None
            nm = len(rec0["final"]["returned"]) if rec0 else 0
            for n in range(1, min(nm + 1, 6) + 1):
                variants.append(("collect", n))
        else:
            variants.append((m, 0))
    for mi, (m, nx) in enumerate(variants):
        c = dict(case)
        c["cfg"] = dict(case["cfg"])
        c["cfg"]["nexts"] = nx
        c["cfg"]["collecting"] = m == "collect"
        c["tid"] = tid * 16 + mi
        try:
            rec, info = runtrace.run_case(c, m)
        except Exception as e:  # harness failure, not a verdict
            import traceback

            return [("harness", traceback.format_exc()[-1500:], lang.render_csvpath(case["prog"], "f.csv"))]
        out.append((rec, info, m))
    return out


def run(pid, tier, *, groups, judged, ncases, methods=("collect",), seed_salt=0, gen_opts=None, batch=4000, classify=None, pre=None):
    rep = common.Report(pid, tier)
    if pre:
        pre(rep)
    seed = common.seed() + seed_salt
    items = [(seed, i, tuple(groups), tuple(methods), gen_opts or {}) for i in range(ncases)]
    results = common.pmap(_work, items, initializer=scratch.enter_scratch)
    recs, infos, oom = [], {}, 0
    for lst in results:
        for r in lst:
            if r[0] == "harness":
                raise MachineryError(f"harness failure on {r[2]}:\n{r[1]}")
            rec, info, m = r
            if rec is None:
                oom += 1
                continue
            recs.append(rec)
            infos[rec["tid"]] = info
    verdicts = {}
    for b in range(0, len(recs), batch):
        res, v = runtrace.validate(recs[b : b + batch])
        rep.add_tlc(f"RunTrace Dev={{}} batch {b // batch}", res)
        verdicts.update(v)
    missing = [r["tid"] for r in recs if r["tid"] not in verdicts]
    if missing:
        raise MachineryError(f"no verdict for {len(missing)} traces (first {missing[:5]})")
    rejected = [r for r in recs if verdicts[r["tid"]][0] != "ok"]
    # ---- attribution to known findings
    explained = {}
    closest = {}     # tid -> verdict under the union of the deviations (the model closest to the pinned implementation)
    if rejected:
        known = {fid: dev for fid, dev in DEVIATIONS.items()}
        trials = [(fid, (dev,)) for fid, dev in known.items()]
        if len(known) > 1:
            trials.append(("+".join(sorted(known)), tuple(sorted(known.values()))))
        todo = list(rejected)
        for fid, devs in trials:
            if not todo:
                break
            res, v = runtrace.validate(todo, dev=devs)
            rep.add_tlc(f"RunTrace Dev={set(devs)}", res)
            still = []
            for r in todo:
                if v.get(r["tid"], ("?",))[0] == "ok":
                    explained[r["tid"]] = fid
                else:
                    still.append(r)
                    if len(devs) == len(known):
                        closest[r["tid"]] = v[r["tid"]]
            todo = still
    # ---- verdicts
    unjudged = 0
    for r in rejected:
        tid = r["tid"]
        verdict, at, exp = verdicts[tid]
        f = field_of(verdict)
        info = infos[tid]
        payload = {
            "kind": "trace-rejected",
            "field": verdict,
            "at_event": at,
            "csvpath": info["csvpath"],
            "file_records": info["records"],
            "method": info["method"],
            "expected_by_spec": exp,
            "impl_event": info["events"][at - 1] if 0 < at <= len(info["events"]) else None,
            "impl_final": {"variables": info.get("variables"), "returned": info.get("returned"), "raised": info.get("raised")},
            "case": {"prog": r["prog"], "cfg": r["cfg"]},
        }
        if tid in explained:
            fid = explained[tid]
            for one in fid.split("+"):
                owner = one.split("-")[0]
                if owner == pid:
                    rep.violation(payload, finding=one)
            continue
        if tid in closest:
            # the trace also contains a listed finding of C01; judge what remains once those are modelled
            verdict, at, exp = closest[tid]
            f = field_of(verdict)
            payload.update({"field": verdict, "at_event": at, "expected_by_spec": exp, "note": "verdict under the deviations of C01's listed findings"})
        if f not in judged:
            unjudged += 1
            continue
        fid = classify(info, verdict) if classify else None
        if fid is None and info.get("adjacent_refs") and f in ("printed", "final_printed"):
            fid = "C16-adjacent-references"
        if fid is not None and fid.split("-")[0] != pid:
            unjudged += 1          # a listed finding of another property (reported there)
            continue
        rep.violation(payload, finding=fid)
    for r in recs:
        info = infos[r["tid"]]
        if not info.get("cells_ok", True) and "returned" in judged:
            rep.violation({"kind": "returned-cells-differ", "csvpath": info["csvpath"], "file_records": info["records"]})
    rep.traces += len(recs)
    rep.evaluations += len(recs)
    seen = set()
    for r in recs:
        info = infos[r["tid"]]
        key = info["csvpath"]
        if key in seen:
            continue
        seen.add(key)
        if len(r["events"]) > 0 and any(e["scan_count"] > 0 for e in r["events"]):
            rep.nontrivial_case(key + json.dumps(info["records"]))
    for r in recs[:: max(1, len(recs) // 4)][:4]:
        info = infos[r["tid"]]
        rep.sample({"csvpath": info["csvpath"], "file": info["records"], "method": info["method"],
                    "returned_lines": info.get("returned"), "verdict": verdicts[r["tid"]][0]})
    rep.extra.update({
        "out_of_model_cases": oom,
        "rejected_under_documented_semantics": len(rejected),
        "explained_by_known_findings": len(explained),
        "mismatches_in_fields_judged_by_other_properties": unjudged,
        "judged_fields": sorted(judged),
        "methods": list(methods),
        "function_groups": list(groups),
    })
    rep.rule = (
        "seeded random well-typed csvpaths (typed generator lib/gen.py: depth<=4, 1-6 components, both logic modes, "
        "scan shapes *, N*, N, a-b, '+' lists) over typed random files (ragged rows, blank records, empty cells, numeric "
        "and text cells, multi-digit and negative numbers); each run for real with one event per _consider_line call; "
        "TLC validates each trace step by step. non-trivial = a distinct (csvpath, file) whose run offered at least one line."
    )
    rep.assumptions = [
        "TLC 1.8; spec/RunTrace.tla with Run/Eval/Scan/Assign/Values",
        "projection: lib/runner.snapshot and lib/runtrace._norm_vars (hash-named internal variables and tracking entries that were only read are not part of the judged variables)",
        "python csv round trip of the generated file",
        "generated programs avoid argument-validation errors by construction (those are C05's pool)",
    ]
    return rep.finish()


def replay(path, pid):
    with open(path) as f:
        d = json.load(f)
    print(json.dumps({k: d[k] for k in d if k != "case"}, indent=1)[:4000])
    return 0
