"""C15 — comment mode settings take effect; matched and unmatched partition the file (run part)."""
from checks import runfam

PID = "C15"
JUDGED = {"returned", "final_returned", "final_unmatched", "k", "extra_event", "missing_event", "raised"}


def main(tier):
    n = 600 if tier == "quick" else 10000
    return runfam.run(PID, tier, groups=("core", "control"), judged=JUDGED, ncases=n, seed_salt=1500,
                      gen_opts={"modes": True})


def replay(path):
    return runfam.replay(path, PID)
