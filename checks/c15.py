"""C15 — comment mode settings take effect; matched and unmatched partition the file.

Two instances of the technique:
 (A) spec/Meta.tla gives the documented meaning of an outer comment declaratively (a colon after a
     word makes a field; its value runs to the next coloned word; a stand-alone colon ends it) and
     the split comment / scan / match. TLC enumerates every comment over a small alphabet up to a
     length (plus invariants NoColonNoFields, ValuesStripped, KeysAreWords) and emits the expected
     fields; each comment is prefixed to a fixed csvpath and parsed for real: metadata must hold
     exactly the fields, and the scan and match parts must be unchanged.
 (B) Run.tla: generated csvpaths x combinations of logic-mode, return-mode, unmatched-mode, run-mode,
     print-mode in the outer comment; traces validated by RunTrace (no-matches inverts the per-line
     decision, keep partitions the records read into returned/unmatched, no-run reads nothing,
     print-mode no-default silences standard out only).
 (C) SameRun.tla 'silent': a CsvPath as a user makes it (no printer but the default one) runs the same generated csvpath with and
     without print-mode: no-default: the same run call by call, and nothing on standard out."""
import copy
import json
import os
import random

from checks import runfam
from lib import common, gen, runtrace, samerun, scratch
from lib.tlc import run_tlc, require_ok, MachineryError

PID = "C15"
JUDGED = {"returned", "final_returned", "final_unmatched", "k", "extra_event", "missing_event", "raised", "final_stdout"}
MODES = {"logic-mode", "return-mode", "print-mode", "validation-mode", "run-mode", "unmatched-mode", "source-mode", "files-mode", "explain-mode", "transfer-mode"}


def _replay(rec):
    from csvpath import CsvPath

    scratch.scratch_dir() or scratch.enter_scratch()
    comment = "".join(chr(x) for x in rec["c"])
    text = f"~{comment}~ $f.csv[1*][ yes() #0 ]"
    p = CsvPath()
    try:
        with scratch.silence():
            p.parse(text, disposably=True)
    except Exception as e:
        return {"kind": "meta", "what": "parse raised", "comment": comment, "raised": f"{type(e).__name__}: {e}"[:200]}
    exp = {"".join(chr(x) for x in k): "".join(chr(x) for x in v) for k, v in rec["kv"]}
    got = {k: v for k, v in (p.metadata or {}).items() if k not in ("original_comment", "") and k not in MODES}
    got = {k: ("" if v is None else v) for k, v in got.items()}
    bad = []
    if p.match != "[ yes() #0 ]":
        bad.append("match part changed")
    scan = getattr(p, "scan", None)
    if rec["plain"] and got != exp:
        bad.append("metadata fields")
    if comment.strip() and (p.metadata or {}).get("original_comment") != comment.strip():
        bad.append("original_comment")
    if bad:
        return {"kind": "meta", "what": bad, "comment": comment, "expected_fields": exp, "got_fields": got, "match": p.match}
    return None


def meta_part(rep, tier):
    n = 4 if tier == "quick" else 6
    name = "_gen_MC_Meta.cfg"
    with open(os.path.join(common.VERIF, "spec", name), "w") as f:
        f.write(f"CONSTANTS\n  Alphabet = {{97, 98, 32, 58, 45, 46, 49, 44}}\n  MaxLen = {n}\nINIT Init\nNEXT Next\n"
                "INVARIANT NoColonNoFields\nINVARIANT ValuesStripped\nINVARIANT KeysAreWords\nINVARIANT Emit\nCHECK_DEADLOCK FALSE\n")
    res = require_ok(run_tlc("Meta", name, timeout=1500, keep_stdout=False), "MC_Meta")
    rep.add_tlc(f"Meta: every comment over {{a, b, blank, colon, -, ., 1, comma}} up to length {n}", res)
    if res.invariant_violated:
        rep.violation({"kind": "spec", "invariant": res.invariant_violated})
        return
    seen = set()
    recs = []
    for r in res.records:
        k = json.dumps(r["c"])
        if k not in seen:
            seen.add(k)
            recs.append(r)
    bad = common.pmap(_replay, recs, initializer=scratch.enter_scratch)
    for d in bad:
        if d is not None:
            rep.violation(d)
    rep.extra["comments_replayed"] = len(recs)
    rep.extra["comments_with_judged_fields"] = sum(1 for r in recs if r["plain"] and r["kv"])
    rep.evaluations += len(recs)


def _bare_pair(args):
    seed, i = args
    rng = random.Random(seed * 1000003 + i)
    case = gen.make_case(rng, i, groups=("core", "control", "print"), modes=True)
    out = []
    for nd in (False, True):
        c = copy.deepcopy(case)
        c["cfg"]["noDefaultPrint"] = nd
        out.append(runtrace.run_case(c, "collect", bare=True))
    return out


def bare_pairs(rep, tier):
    """print-mode no-default removes standard-out printing ONLY: the same generated csvpath (print components with named streams and
    follow-up functions among control functions, under the other mode settings) run by a CsvPath as a user makes it - its only
    printer the default one - with and without 'print-mode: no-default'. SameRun 'silent': call by call the same run (lines,
    counters, stop point, validity, votes, variables), the same delivered and unmatched lines, and nothing on standard out."""
    n = 500 if tier == "quick" else 6000
    outs = common.pmap(_bare_pair, [(common.seed() + 1515, i) for i in range(n)], initializer=scratch.enter_scratch)
    cases, infos = [], {}
    for i, pair in enumerate(outs):
        (r0, i0), (r1, i1) = pair
        if r0 is None or r1 is None:
            continue
        cases.append(samerun.case(i, r0, [samerun.other(r1, "silent", lines=True, unmatched=bool(r0["cfg"]["keepUnmatched"]))]))
        infos[i] = {"csvpath": i1["csvpath"], "file_records": i1["records"], "stdout_without_the_setting": len(r0["final"]["stdout"])}
    res, verdicts = samerun.validate(cases)
    rep.add_tlc("SameRun 'silent': a bare CsvPath with print-mode: no-default against the same csvpath without it", res)
    for c in cases:
        v = verdicts[c["tid"]]
        if v["verdict"] != "ok":
            rep.violation({"kind": "print-mode-changed-the-run", "field": v["verdict"], "at_call": v.get("expected"), **infos[c["tid"]]})
    rep.extra["bare_print_mode_pairs"] = len(cases)
    rep.extra["bare_print_mode_pairs_that_print"] = sum(1 for c in cases if infos[c["tid"]]["stdout_without_the_setting"] > 0)
    rep.evaluations += 2 * len(cases)
    rep.traces += 2 * len(cases)


def main(tier):
    n = 600 if tier == "quick" else 10000
    # the mode settings hold whichever method drives the run: collect() and fast_forward() (which returns nothing, and with
    # run-mode: no-run reads nothing either)
    return runfam.run(PID, tier, groups=("core", "control", "print"), judged=JUDGED, ncases=n, seed_salt=1500, methods=("collect", "fast_forward"),
                      gen_opts={"modes": True}, pre=lambda rep: (meta_part(rep, tier), bare_pairs(rep, tier)))


def replay(path):
    return runfam.replay(path, PID)
