"""C02 — the scan part selects exactly the lines it denotes.

Spec: spec/Scan.tla (denotation) + spec/ScanRun.tla (the run loop restricted to scanning).
TLC: exhaustive over all scan shapes of the quantifier x all files with blanks anywhere, invariants
OfferedExactly / NothingElse / NoEarlyStop.  Binding (direction A): every terminal state TLC
reaches is replayed through the real CsvPath.collect(); and, at scanner grain, the membership
table of every scan AST is compared with a really parsed Scanner.includes().
"""
import json
import os

from lib import common, scratch, runner
from lib.tlc import run_tlc, require_ok

PID = "C02"


def render_atom(s):
    if s["k"] == "one":
        return str(s["a"])
    if s["k"] == "range":
        return f'{s["a"]}-{s["b"]}'
    if s["k"] == "all":
        return "*"
    if s["k"] == "from":
        return f'{s["a"]}*'
    raise ValueError(s)


def render_scan(s):
    if s["k"] == "plus":
        return "+".join(render_atom(a) for a in s["items"])
    return render_atom(s)


def cfg_text(maxn, maxbound, maxitems, invariants):
    inv = "\n".join(f"INVARIANT {i}" for i in invariants)
    return f"""CONSTANTS
  MaxN = {maxn}
  MaxBound = {maxbound}
  MaxItems = {maxitems}
INIT Init
NEXT Next
{inv}
CHECK_DEADLOCK FALSE
"""


def _write_cfg(name, text):
    p = os.path.join(common.VERIF, "spec", name)
    with open(p, "w") as f:
        f.write(text)
    return name


# ---- replay workers -------------------------------------------------------------------------------


def _init():
    scratch.enter_scratch()


def _replay_run(rec):
    """One TLC terminal state -> one real run. Returns None if it agrees, else a discrepancy."""
    blanks = rec["blanks"]
    records = [[] if b else [f"r{i}", "v"] for i, b in enumerate(blanks)]
    path = os.path.join(scratch.scratch_dir(), "f.csv")
    runner.write_csv(path, records)
    scan = render_scan(rec["scan"])
    text = f'${path}[{scan}][yes() push("ln", line_number())]'
    out = runner.run_standalone(text, method="collect")
    p = out["csvpath"]
    got = {
        "raised": out["raised"],
        "returned": None if out["lines"] is None else [int(l[0][1:]) for l in out["lines"]],
        "scanCount": p.scan_count,
        "lnums": list(p.variables.get("ln", [])),
    }
    exp = {"raised": None, "returned": rec["returned"], "scanCount": rec["scanCount"], "lnums": rec["lnums"]}
    if got != exp:
        return {"kind": "run", "csvpath": text.replace(path, "f.csv"), "scan": scan, "blanks": blanks,
                "expected": exp, "got": got, "raised_msg": out.get("raised_msg")}
    # the scan part denotes the same lines whoever drives the csvpath: every third terminal state is also replayed as a one-member
    # named-paths group, one csvpath after another (collect_paths) and line by line (collect_by_line)
    if rec.get("_group"):
        from lib import grouprun, pharness

        for method in ("collect_paths", "collect_by_line"):
            try:
                with scratch.silence():
                    cp = grouprun.setup_project("scan", records, {"g": [f'~ id: m ~ $data[{scan}][yes() push("ln", line_number())]']})
                    pharness.run_method(cp, method, "g", "data")
                    r = cp.results_manager.get_named_results("g")[0]
                    got2 = {"raised": None, "returned": [int(l[0][1:]) for l in r.lines.next()] if hasattr(r.lines, "next") else [int(l[0][1:]) for l in r.lines],
                            "scanCount": r.csvpath.scan_count, "lnums": list(r.csvpath.variables.get("ln", []))}
            except Exception as e:  # noqa
                got2 = {"raised": f"{type(e).__name__}: {e}"[:200]}
            if got2 != exp:
                return {"kind": "run", "method": method, "csvpath": f"$data[{scan}][yes() push(\"ln\", line_number())]", "scan": scan, "blanks": blanks,
                        "expected": exp, "got": got2}
    return None


def _replay_table(rec):
    """Scanner grain: Scan!In(s, n) for n in 0..len-1 against Scanner.includes(n)."""
    from csvpath.scanning.scanner import Scanner

    scan = render_scan(rec["scan"])
    try:
        with scratch.silence():
            sc = Scanner()
            sc.parse(f"$f[{scan}]")
        got = [bool(sc.includes(n)) for n in range(len(rec["member"]))]
    except Exception as e:
        got = f"raised {type(e).__name__}: {e}"
    if got != rec["member"]:
        return {"kind": "table", "scan": scan, "expected": rec["member"], "got": got}
    return None


def classify(d):
    """Attribute a discrepancy to a listed known finding (by its concrete shape) or None."""
    return None


def main(tier):
    rep = common.Report(PID, tier)
    if tier == "quick":
        run_bounds = (3, 5, 2)
        table_bounds = (0, 6, 2)
    else:
        run_bounds = (5, 7, 3)
        table_bounds = (0, 12, 3)
    invs = ["TypeOK", "OfferedExactly", "NothingElse", "NoEarlyStop"]
    # (T) + emission for the run grain
    cfg = _write_cfg("_gen_ScanRun_run.cfg", cfg_text(*run_bounds, invs + ["Emit"]))
    res = require_ok(run_tlc("ScanRun", cfg, timeout=1500, keep_stdout=False), "MC ScanRun (run grain)")
    rep.add_tlc(f"ScanRun MaxN={run_bounds[0]} MaxBound={run_bounds[1]} MaxItems={run_bounds[2]}", res)
    if res.invariant_violated:
        rep.violation({"kind": "spec", "invariant": res.invariant_violated, "tail": res.stdout[-2000:]})
        return rep.finish()
    runs = res.records
    # scanner grain
    cfg = _write_cfg("_gen_ScanRun_tab.cfg", cfg_text(*table_bounds, ["EmitTable"]))
    res2 = require_ok(run_tlc("ScanRun", cfg, timeout=1500, keep_stdout=False), "MC ScanRun (scanner grain)")
    rep.add_tlc(f"ScanRun tables MaxBound={table_bounds[1]} MaxItems={table_bounds[2]}", res2)
    tables = res2.tags.get("T", [])
    if not runs or not tables:
        raise common.MachineryError("TLC emitted no behaviours") if hasattr(common, "MachineryError") else SystemExit(2)

    for i, r in enumerate(runs):
        r["_group"] = i % 3 == 0
    bad = common.pmap(_replay_run, runs, initializer=_init)
    bad_t = common.pmap(_replay_table, tables, initializer=_init)
    rep.traces = len(runs) + len(tables)
    rep.evaluations = len(runs) + len(tables)
    for r in runs:
        if r["returned"]:
            rep.nontrivial_case((render_scan(r["scan"]), tuple(r["blanks"])))
    for r in runs[:: max(1, len(runs) // 5)]:
        rep.sample({"scan": render_scan(r["scan"]), "blanks": r["blanks"], "expected_returned": r["returned"]})
    for d in list(bad) + list(bad_t):
        if d is not None:
            rep.violation(d, finding=classify(d))
    rep.exhaustive = True
    rep.rule = (
        "every scan AST of the quantifier's shapes (*, N*, N, a-b either order, '+' lists of numbers and forward "
        f"ranges ascending/non-overlapping) with bounds 0..{run_bounds[1]} and <= {run_bounds[2]} '+' operands x every "
        f"file of 0..{run_bounds[0]} records with blanks in any position, enumerated by TLC and each replayed through "
        f"CsvPath.collect() (every third also as a one-member named-paths group with collect_paths and collect_by_line); plus the includes() table of every scan AST with bounds 0..{table_bounds[1]}, "
        f"<= {table_bounds[2]} operands. non-trivial = at least one line is offered."
    )
    rep.assumptions = [
        "TLC 1.8 and the Scan/ScanRun modules",
        "python csv writes a blank record as an empty physical line",
        "the match part yes() push(\"ln\", line_number()) observes but does not alter scanning",
    ]
    return rep.finish()


def replay(path):
    with open(path) as f:
        d = json.load(f)
    _init()
    print(json.dumps(d, indent=1))
    if d.get("kind") == "table":
        r = _replay_table({"scan": None, "member": d["expected"]}) if False else None
    return 0
