"""C01 — returned lines are exactly the scanned lines that satisfy the match part."""
from checks import runfam, mcrun, repotraces

PID = "C01"
JUDGED = {"k", "returned", "votes", "final_returned", "raised", "extra_event", "missing_event"}


def main(tier):
    n = 2500 if tier == "quick" else 20000
    return runfam.run(PID, tier, groups=("core",), judged=JUDGED, ncases=n, methods=("collect", "next") if tier != "quick" else ("collect",),
                      pre=lambda rep: (mcrun.run_pool(rep, tier, {"returned", "raised"}, PID), repotraces.run(rep, tier, JUDGED, PID)))


def replay(path):
    return runfam.replay(path, PID)
