"""C14 — assignment qualifiers decide the vote and the write per the documented table.

Spec: spec/Assign.tla (Decide), closed instance spec/MC_Assign.tla: all 256 qualifier subsets x all
sequences of 3 values of y x all patterns of "rest of line matches" (241 408 behaviours, 965 632
states). TLC checks 13 prose invariants (docs/assignment.md, the property statement) against the
table, and emits every terminal state; each is replayed as one real csvpath
    $f[*][ @x.<qualifiers> = #2   #1 == "y" ]
over a generated 3-line file, comparing per line: the value of x, the assignment's vote, and
whether the line was returned."""
import json
import os

from lib import common, scratch, runner, runtrace
from lib.tlc import run_tlc, require_ok, MachineryError

PID = "C14"
INVS = ["NocontribNeutral", "OnmatchGates", "WriteSetsY", "NoWriteKeeps", "NotnoneBlocks", "LatchWritesOnce",
        "LatchNeverNegative", "OnchangeNegative", "IncreaseMonotone", "DecreaseMonotone", "AsboolTruth",
        "PlainAlways", "WritePositive"]
ORDER = ["onmatch", "latch", "onchange", "increase", "decrease", "notnone", "asbool", "nocontrib"]
YTEXT = {1: "1", 2: "2", 3: "3", 4: "", 10: "true", 11: "false"}


def _cfg(sample):
    inv = "\n".join(f"INVARIANT {i}" for i in INVS + ["Emit"])
    return f"CONSTANT Sample = {'TRUE' if sample else 'FALSE'}\nINIT Init\nNEXT Next\n{inv}\nCHECK_DEADLOCK FALSE\n"


def _dec(v):
    if v["t"] == "none":
        return None
    if v["t"] == "str":
        return "".join(chr(c) for c in v["s"])
    raise ValueError(v)


def _replay(rec):
    d = scratch.scratch_dir() or scratch.enter_scratch()
    path = os.path.join(d, "f.csv")
    rows = []
    for i in range(3):
        row = ["r%d" % i, "y" if rec["rests"][i] else "n"]
        if rec["ys"][i] != 0:
            row.append(YTEXT[rec["ys"][i]])
        rows.append(row)
    runner.write_csv(path, rows)
    quals = [q for q in ORDER if q in rec["q"]]
    text = f'${path}[*][ @x{"".join("." + q for q in quals)} = #2 #1 == "y" ]'
    p, cap = runner.new_csvpath()
    events = []
    orig = p._consider_line

    def wrapped(line):
        ret = None
        try:
            ret = orig(line)
            return ret
        finally:
            try:
                votes = [e[1] for e in p.matcher.expressions] if p.matcher else None
                events.append({"ret": ret, "x": p.variables.get("x"), "vote": votes[0] if votes else None})
            except Exception:  # noqa: never raise into the implementation
                runner.harness_failed("c14 observer")

    p._consider_line = wrapped
    raised = None
    with scratch.silence():
        try:
            p.collect(text)
        except Exception as e:
            raised = f"{type(e).__name__}: {e}"[:200]
    got = [{"x": e["x"], "vote": e["vote"], "returned": bool(e["ret"])} for e in events]
    exp = [{"x": _dec(s["x"]), "vote": s["vote"], "returned": s["returned"]} for s in rec["steps"]]
    # a vote of the assignment that the matcher never asked for (line already aborted) cannot occur here
    if raised or got != exp:
        return {"kind": "assign", "csvpath": text.replace(path, "f.csv"), "file_records": rows, "expected": exp,
                "got": got, "raised": raised, "qualifiers": quals}
    return None


def main(tier):
    rep = common.Report(PID, tier)
    name = "_gen_MC_Assign.cfg"
    with open(os.path.join(common.VERIF, "spec", name), "w") as f:
        f.write(_cfg(tier == "quick"))
    res = require_ok(run_tlc("MC_Assign", name, timeout=1500, keep_stdout=False), "MC_Assign")
    rep.add_tlc("MC_Assign: 256 qualifier subsets x y^3 x rest^3, 13 prose invariants", res)
    if res.invariant_violated:
        rep.violation({"kind": "spec", "invariant": res.invariant_violated, "tail": res.stdout[-1500:]})
        return rep.finish()
    recs = res.records
    if not recs:
        raise MachineryError("MC_Assign emitted nothing")
    bad = common.pmap(_replay, recs, initializer=scratch.enter_scratch)
    rep.traces = len(recs)
    rep.evaluations = len(recs)
    for r in recs:
        if any(s["write"] for s in r["steps"]) or any(not s["vote"] for s in r["steps"]):
            rep.nontrivial_case((tuple(sorted(r["q"])), tuple(r["ys"]), tuple(r["rests"])))
    for r in recs[:: max(1, len(recs) // 4)][:4]:
        rep.sample({"qualifiers": sorted(r["q"]), "ys": r["ys"], "rests": r["rests"],
                    "expected": [{"x": _dec(s["x"]), "vote": s["vote"], "returned": s["returned"]} for s in r["steps"]]})
    for d in bad:
        if d is not None:
            rep.violation(d)
    rep.exhaustive = tier != "quick"
    rep.extra["replayed_behaviours"] = len(recs)
    rep.extra["qualifier_subsets_replayed"] = len({tuple(sorted(r["q"])) for r in recs})
    rep.rule = ("TLC enumerates all 256 qualifier subsets x all sequences of 3 y values from {absent,1,2,3} (+true/false without "
                "increase/decrease) x {rest matches, not}^3 = 241 408 behaviours and checks the 13 prose invariants on all of them; "
                + ("every behaviour" if tier != "quick" else "a 1/16 covering sample (all 256 subsets occur)")
                + " is replayed as a real csvpath over a 3-line file. non-trivial = some line writes or votes negative.")
    rep.assumptions = ["TLC; Assign.tla transcribes docs/assignment.md and the property statement (two formulations checked against each other)",
                       "y absent = a row too short for #2; rest of line = #1 == \"y\""]
    return rep.finish()


def replay(path):
    with open(path) as f:
        print(f.read()[:3000])
    return 0
