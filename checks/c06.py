"""C06 — lines are delivered as they are in the file; headers are the first data line.

Spec: Run.tla — a returned line IS file[k] (no action rewrites cells), HeadersOf = cleaned cells of
the first non-blank record, #name and #index denote the same (stripped) cell, a header beyond a
short row is None. Binding (B): files generated from arbitrary cell text (any code point except
CR/NUL: quotes, delimiters, newlines, non-ASCII, all kinds of blanks), 0-12 records of 0-6 cells,
blank records anywhere, every delimiter x quote character of the quantifier, written by csv.writer;
the trace of the real run is validated by RunTrace, whose final step compares the delivered lines
cell by cell with file[k] (final_lines), the header names with HeadersOf (headers), and the values
captured through #name / #index with the stripped cells (vars). The csv codec itself is trusted."""
import random

from checks import runfam
from lib import common, gen, lang, runtrace, scratch

PID = "C06"
JUDGED = {"final_lines", "headers", "vars", "final_vars", "returned", "final_returned", "k", "votes", "raised", "extra_event", "missing_event"}

POOL = list("abcXYZ019 _-.") + [",", ";", "|", "\t", '"', "'", "\n", " ", "  ", "é", "ß", "Ω", "中", "😀", " ", " ", "א", "`", "#", "$", "[", "]", "~", "\\", "\ufeff"]
NICE = ["name", "Last Name", "col_1", "a-b", "Zip", "x"]


def rand_cell(rng):
    r = rng.random()
    if r < 0.12:
        return ""
    if r < 0.18:
        return rng.choice(["None", "nan", " ", " ", "0", "true"])
    return "".join(rng.choice(POOL) for _ in range(rng.choice([1, 1, 2, 3, 5, 9])))


def make_case(rng, tid):
    ncols = rng.randint(1, 6)
    nrec = rng.randint(0, 12)
    nice = rng.random() < 0.55
    records = []
    for i in range(nrec):
        if rng.random() < 0.15:
            records.append([])
            continue
        n = rng.choice([ncols, ncols, ncols, rng.randint(1, 6)])
        records.append([rand_cell(rng) for _ in range(n)])
    first = next((i for i, r in enumerate(records) if r), None)
    names = None
    if nice and first is not None:
        names = rng.sample(NICE, min(len(NICE), len(records[first])))
        if len(names) >= 2 and rng.random() < 0.3:
            # a header name that occurs twice: #name is the FIRST column of that name (and so is its index)
            a, b = sorted(rng.sample(range(len(names)), 2))
            names[b] = names[a]
        records[first] = names + records[first][len(names):]
    if records and records[0] and rng.random() < 0.12:
        # U+FEFF is a code point like any other, also as the very first character of the file
        records[0][0] = "\ufeff" + records[0][0]
    comps = [lang.fn("yes")]
    if first is not None:
        j = rng.randrange(max(1, len(records[first])))
        if names and j < len(names):
            comps.append(lang.fn("push", lang.term("byname"), lang.hdr(names[j])))
        comps.append(lang.fn("push", lang.term("byidx"), lang.hdr(j)))
        if rng.random() < 0.4:
            comps.append(lang.hdr(rng.randrange(0, 7)))          # an existence test, possibly beyond the row
    prog = {"scan": lang.scan("all"), "comps": comps, "meta": []}
    prog["initVars"] = []
    cfg = {"AND": True, "noMatches": False, "keepUnmatched": rng.random() < 0.3, "collecting": True, "noRun": False, "nexts": 0}
    dialect = {"delimiter": rng.choice([",", ";", "|", "\t"]), "quotechar": rng.choice(['"', "'"])}
    return {"tid": tid, "prog": prog, "records": records, "cfg": cfg, "dialect": dialect}


def main(tier):
    import checks.runfam as rf

    n = 500 if tier == "quick" else 20000
    orig = gen.make_case
    gen.make_case = lambda rng, tid, **kw: make_case(rng, tid)
    try:
        return rf.run(PID, tier, groups=("fidelity",), judged=JUDGED, ncases=n, seed_salt=600, methods=("collect", "next"))
    finally:
        gen.make_case = orig


def replay(path):
    return runfam.replay(path, PID)
