"""C06 — lines are delivered as they are in the file; headers are the first data line.

Spec: Run.tla — a returned line IS file[k] (no action rewrites cells), HeadersOf = cleaned cells of
the first non-blank record, #name and #index denote the same (stripped) cell, a header beyond a
short row is None. Binding (B): files generated from arbitrary cell text (any code point except
CR/NUL: quotes, delimiters, newlines, non-ASCII, all kinds of blanks), 0-12 records of 0-6 cells,
blank records anywhere, every delimiter x quote character of the quantifier, written by csv.writer;
the trace of the real run is validated by RunTrace, whose final step compares the delivered lines
cell by cell with file[k] (final_lines), the header names with HeadersOf (headers), and the values
captured through #name / #index with the stripped cells (vars). The csv codec itself is trusted."""
import random

from checks import runfam
from lib import common, gen, lang, runtrace, scratch

PID = "C06"
JUDGED = {"final_lines", "headers", "vars", "final_vars", "returned", "final_returned", "k", "votes", "raised", "extra_event", "missing_event"}

POOL = list("abcXYZ019 _-.") + [",", ";", "|", "\t", '"', "'", "\n", " ", "  ", "é", "ß", "Ω", "中", "😀", " ", " ", "א", "`", "#", "$", "[", "]", "~", "\\", "\ufeff"]
NICE = ["name", "Last Name", "col_1", "a-b", "Zip", "x"]


def rand_cell(rng):
    r = rng.random()
    if r < 0.12:
        return ""
    if r < 0.18:
        return rng.choice(["None", "nan", " ", " ", "0", "true"])
    return "".join(rng.choice(POOL) for _ in range(rng.choice([1, 1, 2, 3, 5, 9])))


def make_case(rng, tid):
    ncols = rng.randint(1, 6)
    nrec = rng.randint(0, 12)
    nice = rng.random() < 0.55
    records = []
    for i in range(nrec):
        if rng.random() < 0.15:
            records.append([])
            continue
        n = rng.choice([ncols, ncols, ncols, rng.randint(1, 6)])
        records.append([rand_cell(rng) for _ in range(n)])
    first = next((i for i, r in enumerate(records) if r), None)
    names = None
    if nice and first is not None:
        names = rng.sample(NICE, min(len(NICE), len(records[first])))
        if len(names) >= 2 and rng.random() < 0.3:
            # a header name that occurs twice: #name is the FIRST column of that name (and so is its index)
            a, b = sorted(rng.sample(range(len(names)), 2))
            names[b] = names[a]
        records[first] = names + records[first][len(names):]
    if records and records[0] and rng.random() < 0.12:
        # U+FEFF is a code point like any other, also as the very first character of the file
        records[0][0] = "\ufeff" + records[0][0]
    comps = [lang.fn("yes")]
    if first is not None:
        j = rng.randrange(max(1, len(records[first])))
        if names and j < len(names):
            comps.append(lang.fn("push", lang.term("byname"), lang.hdr(names[j])))
        comps.append(lang.fn("push", lang.term("byidx"), lang.hdr(j)))
        if rng.random() < 0.4:
            comps.append(lang.hdr(rng.randrange(0, 7)))          # an existence test, possibly beyond the row
    prog = {"scan": lang.scan("all"), "comps": comps, "meta": []}
    prog["initVars"] = []
    cfg = {"AND": True, "noMatches": False, "keepUnmatched": rng.random() < 0.3, "collecting": True, "noRun": False, "nexts": 0}
    dialect = {"delimiter": rng.choice([",", ";", "|", "\t"]), "quotechar": rng.choice(['"', "'"])}
    return {"tid": tid, "prog": prog, "records": records, "cfg": cfg, "dialect": dialect}


GROUP_METHODS = ("collect_paths", "fast_forward_paths", "next_paths", "collect_by_line", "fast_forward_by_line", "next_by_line")


def _group_work(args):
    """the header names of a csvpath are the cells of the file's first non-blank record also when it runs as a member of a
    named-paths group behind a member that gives ITS OWN line another header (append()), and in a later run on the same
    CsvPaths instance: the member's trace is validated by the same run machine as a standalone run"""
    import os
    from lib import grouprun, pharness

    seed, gi = args
    rng = random.Random(seed * 9176 + gi)
    case = make_case(rng, gi)
    if not any(case["records"]):
        return {"skip": True}
    case["prog"]["comps"] = case["prog"]["comps"] + [lang.assign(lang.var("nh"), lang.fn("count_headers"))]
    case["cfg"]["keepUnmatched"] = False
    tagger = '~ id: tagger ~ $data[*][ append("tag", "v") ]'
    plain = grouprun.member_text(case, ident="plain")
    method = GROUP_METHODS[gi % len(GROUP_METHODS)]
    # docs/functions/replace.md: in a by-line run the appended value "will be visible to any siblings below" the appending member -
    # there the appending member comes AFTER the observed one (the header names are still each csvpath's own)
    serial = method.endswith("_paths")
    order = [tagger, plain] if serial else [plain, tagger]
    pi = order.index(plain)
    r = grouprun.Recorder()
    try:
        with scratch.silence():
            cp = grouprun.setup_project("hdrs", case["records"], {"g": order, "g2": [plain]}, **case["dialect"])
            r.install()
            pharness.run_method(cp, method, "g", "data")
            pharness.run_method(cp, "collect_paths", "g2", "data")          # a later run on the same instance
    except Exception:
        import traceback

        return {"harness": traceback.format_exc()[-1200:], "texts": [tagger, plain], "records": case["records"], "method": method}
    finally:
        r.uninstall()
    if len(r.members) != 3:
        return {"harness": f"{len(r.members)} members created for 3 csvpaths", "method": method}
    out = []
    for wi, (mi, collecting, way) in enumerate(((pi, method == "collect_paths", method + (", behind" if serial else ", in front of") + " a member that appends a header"),
                                               (2, True, "collect_paths, a later run on the same instance"))):
        try:
            rec = grouprun.member_trace(gi * 4 + wi, case, r.members[mi], collecting=collecting, records=case["records"])
        except runtrace.OutOfModel:
            return {"oom": True}
        out.append((rec, {"way": way, "csvpath": plain, "records": case["records"], "dialect": case["dialect"],
                          "variables": repr(r.members[mi]["p"].variables)[:400]}))
    return {"recs": out}


def groups_pre(rep, tier):
    n = 90 if tier == "quick" else 3000
    outs = common.pmap(_group_work, [(common.seed(), i) for i in range(n)], initializer=scratch.enter_scratch, chunksize=2)
    recs, infos = [], {}
    for o in outs:
        if "harness" in o:
            raise runfam.MachineryError(str(o)[:1500])
        for rec, info in o.get("recs", []):
            recs.append(rec)
            infos[rec["tid"]] = info
    res, verdicts = runtrace.validate(recs)
    rep.add_tlc("RunTrace: a member behind a header-appending member, and in a later run on the same instance", res)
    bad = 0
    for rec in recs:
        v = verdicts.get(rec["tid"])
        if v is None:
            raise runfam.MachineryError("no verdict for a group member trace")
        if v[0] != "ok" and runfam.field_of(v[0]) in JUDGED:
            bad += 1
            rep.violation({"kind": "group-member-trace-rejected", "field": v[0], "at_event": v[1], "expected_by_spec": v[2], **infos[rec["tid"]]})
    rep.extra["group_member_traces"] = len(recs)
    rep.extra["group_member_traces_rejected"] = bad


def main(tier):
    import checks.runfam as rf

    n = 500 if tier == "quick" else 20000
    orig = gen.make_case
    gen.make_case = lambda rng, tid, **kw: make_case(rng, tid)
    try:
        return rf.run(PID, tier, groups=("fidelity",), judged=JUDGED, ncases=n, seed_salt=600, methods=("collect", "next"),
                      pre=lambda rep: groups_pre(rep, tier))
    finally:
        gen.make_case = orig


def replay(path):
    return runfam.replay(path, PID)
