"""C12 — named-paths groups round-trip and select by identity.

Spec: spec/NamedPaths.tla (abstract member tokens; Add/ReAdd/Replace, Remove, NewInstance; Select,
From, To; manifest one entry per change of content). TLC checks ManifestCurrent, NoRepeatEntries,
SelectionsConsistent, OneEntryPerChange exhaustively over operation sequences, emits histories,
and each history is replayed into a real PathsManager with member tokens concretised by generated
csvpaths (outer comments with identity metadata in all six spellings, inner comments, newlines)."""
import hashlib
import json
import os
import random

from lib import common, scratch, gen, lang
from lib.tlc import run_tlc, require_ok, MachineryError

PID = "C12"
INVS = ["ManifestCurrent", "NoRepeatEntries", "SelectionsConsistent"]
PROPS = ["OneEntryPerChange"]
SPELL = ["id", "Id", "ID", "name", "Name", "NAME"]


def _cfg(nmembers, maxlist, maxlen, view=False, emit=False):
    s = f'CONSTANTS\n  Groups = {{"ga", "gb"}}\n  NMembers = {nmembers}\n  MaxList = {maxlist}\n  MaxLen = {maxlen}\nINIT Init\nNEXT Next\n'
    s += "".join(f"INVARIANT {i}\n" for i in INVS)
    if emit:
        s += "INVARIANT Emit\n"
    else:
        s += "".join(f"PROPERTY {p}\n" for p in PROPS)
    if view:
        s += "VIEW StoreView\n"
    return s + "CHECK_DEADLOCK FALSE\n"


def member_text(rng, m, ident):
    """a generated csvpath for member token m with identity `ident` ('' = none)"""
    case = gen.make_case(rng, m, groups=("core",))
    prog = case["prog"]
    comps = [lang.render(c) for c in prog["comps"]]
    body = []
    for c in comps:
        body.append(c)
        if rng.random() < 0.4:
            body.append("~ " + rng.choice(["a note", "check: later", "x", "second line\nof a note", "two\n\nparagraphs"]) + " ~")
    sep = rng.choice(["\n    ", " ", "\n", "\n\n  "])       # empty lines inside a csvpath are part of its text
    match = "[" + sep + sep.join(body) + sep + "]"
    scan = lang.render_scan(prog["scan"])
    # docs/comments.md: a field's value runs up to the next coloned word; a stand-alone colon ends it.
    # So free text goes before the first field, or after a stand-alone colon.
    free = rng.choice(["This csvpath checks things.", "validation run", "owner team-a"]) if rng.random() < 0.5 else ""
    parts = []
    if ident:
        # identity precedence id > Id > ID > name > Name > NAME: the winning spelling carries `ident`,
        # a lower-precedence spelling may carry a decoy
        i = rng.randrange(len(SPELL))
        parts.append(f"{SPELL[i]}: {ident}")
        if i + 1 < len(SPELL) and rng.random() < 0.4:
            parts.append(f"{rng.choice(SPELL[i + 1:])}: decoy{m}")
    if rng.random() < 0.5:
        parts.append(rng.choice(["description: a member of the group", "test-data: f.csv", "return-mode: matches"]))
    rng.shuffle(parts)
    comment = ""
    if parts or free:
        joiner = rng.choice([" ", "\n   "])
        inner = joiner.join(([free] if free else []) + parts)
        if parts and rng.random() < 0.3:
            inner += " : trailing words"
        comment = "~ " + inner + " ~" + rng.choice(["\n", "\n", "\n\n", " "])
    lead = rng.choice(["", "\n", "  "])
    # docs/comments.md: outer comments stand "before and/or after the csvpath"; the identity may sit in the one below it
    # (a separate draw: the streams of the other choices stay as they were)
    if comment and random.Random(f"{m}/{ident}/{len(match)}").random() < 0.25:
        return f"{lead}$file{m}.csv[{scan}]{match}" + rng.choice([" ", "\n"]) + comment.rstrip() + rng.choice(["", "\n"])
    return f"{lead}{comment}$file{m}.csv[{scan}]{match}" + rng.choice(["", "\n"])


def _fps(home):
    mp = os.path.join(home, "manifest.json")
    if not os.path.exists(mp):
        return []
    with open(mp) as f:
        return [e["fingerprint"] for e in json.load(f)]


ROUTES = ["list", "list", "dict", "file", "dir", "json"]
routes_used = set()


def _replay(args):
    seed, idx, hist = args
    from csvpath import CsvPaths

    rng = random.Random(seed * 7919 + idx)
    idof = {1: "i1", 2: "", 3: "", 4: "i2"}
    texts = {m: member_text(rng, m, idof[m]) for m in range(1, 5)}
    scratch.fresh_subdir("np")
    groups = sorted(hist[0]["obs"].keys())
    with scratch.silence():
        cp = CsvPaths()
        fp_of_list = {}
        for i, step in enumerate(hist):
            op = step["op"]
            ops_so_far = [s["op"] for s in hist[: i + 1]]
            try:
                if op["k"] == "add":
                    # every loading route ends in the same Add action of NamedPaths.tla: the list itself, a dictionary of groups,
                    # a file of csvpaths joined by the separator line, a directory holding that file, a JSON file naming it
                    plist = [texts[x["m"]] for x in op["l"]]
                    route = ROUTES[(seed + idx) % len(ROUTES)]      # one route per history: the file routes strip each csvpath, so mixing routes changes the stored bytes
                    routes_used.add(route)
                    pm0 = cp.paths_manager
                    if route == "list":
                        pm0.add_named_paths(name=op["g"], paths=plist)
                    elif route == "dict":
                        pm0.set_named_paths({op["g"]: plist})
                    else:
                        d = os.path.join("src", f"r{i}")
                        os.makedirs(d, exist_ok=True)
                        fpath = os.path.join(d, f"{op['g']}.csvpaths")
                        with open(fpath, "w", encoding="utf-8") as f:
                            f.write("\n---- CSVPATH ----\n".join(plist))
                        if route == "file":
                            pm0.add_named_paths_from_file(name=op["g"], file_path=fpath)
                        elif route == "dir":
                            pm0.add_named_paths_from_dir(directory=d)
                        else:
                            jp = os.path.join(d, "groups.json")
                            with open(jp, "w", encoding="utf-8") as f:
                                json.dump({op["g"]: [fpath]}, f)
                            pm0.add_named_paths_from_json(jp)
                elif op["k"] == "remove":
                    cp.paths_manager.remove_named_paths(op["g"])
                elif op["k"] == "new":
                    cp = CsvPaths()
                pm = cp.paths_manager
                for g in groups:
                    o = step["obs"][g]
                    exp_list = [texts[x["m"]].strip() for x in o["list"]]
                    got = pm.get_named_paths(g)
                    if not exp_list:
                        if got:
                            return {"kind": "namedpaths", "step": i, "ops": ops_so_far, "group": g, "what": "absent group returned paths", "got": got}
                        continue
                    got_s = None if got is None else [t.strip() for t in got]
                    if got_s != exp_list:
                        return {"kind": "namedpaths", "step": i, "ops": ops_so_far, "group": g, "what": "round trip", "expected": exp_list, "got": got_s}
                    sel = o["sel"] if isinstance(o["sel"], dict) else {}
                    for ident, s in sel.items():
                        for how, key in ((f"{g}#{ident}", "one"), (f"${g}.csvpaths.{ident}", "one"),
                                         (f"${g}.csvpaths.{ident}:from", "from"), (f"${g}.csvpaths.{ident}:to", "to")):
                            e = [texts[x["m"]].strip() for x in s[key]]
                            r = pm.get_named_paths(how)
                            r = None if r is None else [t.strip() for t in r]
                            if r != e:
                                return {"kind": "namedpaths", "step": i, "ops": ops_so_far, "group": g, "what": f"selection {how}", "expected": e, "got": r}
                    home = os.path.join(pm.named_paths_dir, g)
                    fps = _fps(home)
                    exp_man = [json.dumps([x["m"] for x in l]) for l in o["man"]]
                    bad = None
                    if len(fps) != len(exp_man):
                        bad = "manifest length"
                    else:
                        for a, b in zip(exp_man, fps):
                            if fp_of_list.setdefault(a, b) != b:
                                bad = "same content, different fingerprint"
                        if len(set(fp_of_list.values())) != len(fp_of_list):
                            bad = "different content, same fingerprint"
                        with open(os.path.join(home, "group.csvpaths"), "rb") as f:
                            if fps and fps[-1] != hashlib.sha256(f.read()).hexdigest():
                                bad = "last manifest entry does not fingerprint the stored group file"
                    if bad:
                        return {"kind": "namedpaths", "step": i, "ops": ops_so_far, "group": g, "what": bad, "expected_entries": exp_man, "got_fingerprints": fps}
            except Exception as e:
                import traceback

                return {"kind": "namedpaths", "step": i, "ops": ops_so_far, "raised": f"{type(e).__name__}: {e}",
                        "trace": traceback.format_exc()[-700:], "texts": texts}
    return None


def _marker_probe():
    """the group is stored by concatenation with a textual separator: a member that contains the
    separator text must still round-trip (the property quantifies over all csvpaths)"""
    from csvpath import CsvPaths

    scratch.enter_scratch()
    scratch.fresh_subdir("np-marker")
    a = '~ id: one ~ $f.csv[*][ print("before ---- CSVPATH ---- after") ]'
    b = "~ id: two ~ $f.csv[*][ yes() ~ a comment ---- CSVPATH ---- here ~ ]"
    with scratch.silence():
        cp = CsvPaths()
        cp.paths_manager.add_named_paths(name="gm", paths=[a, b])
        got = cp.paths_manager.get_named_paths("gm")
    got = [t.strip() for t in got] if got else got
    if got != [a, b]:
        return {"kind": "namedpaths", "what": "round trip of members containing the separator text", "added": [a, b], "got": got}
    return None


def main(tier):
    rep = common.Report(PID, tier)
    spec = os.path.join(common.VERIF, "spec")
    deeps, emit, sim = ([(3, 3, 4)], (3, 2, 2), (25, 5)) if tier == "quick" else ([(3, 3, 4), (4, 3, 3), (4, 2, 4)], (3, 3, 3), (400, 6))
    for deep in deeps:
        with open(os.path.join(spec, "_gen_NP_deep.cfg"), "w") as f:
            f.write(_cfg(*deep, view=True))
        r1 = require_ok(run_tlc("NamedPaths", "_gen_NP_deep.cfg", timeout=2400, keep_stdout=False), "NamedPaths deep")
        rep.add_tlc(f"NamedPaths exhaustive on the abstract store: {deep[0]} members, lists <= {deep[1]} (identity-less members may repeat), sequences <= {deep[2]}", r1)
        if r1.invariant_violated:
            rep.violation({"kind": "spec", "invariant": r1.invariant_violated, "tail": r1.stdout[-1500:]})
            return rep.finish()
    with open(os.path.join(spec, "_gen_NP_emit.cfg"), "w") as f:
        f.write(_cfg(*emit, emit=True))
    r2 = require_ok(run_tlc("NamedPaths", "_gen_NP_emit.cfg", timeout=1500, keep_stdout=False), "NamedPaths emit")
    rep.add_tlc(f"NamedPaths all histories of length {emit[2]} ({emit[0]} members, lists <= {emit[1]})", r2)
    hists = list(r2.records)
    # every single group of up to 3 members (an identified member next to two without identity) with all its selections
    with open(os.path.join(spec, "_gen_NP_one.cfg"), "w") as f:
        f.write(_cfg(3 if tier == "quick" else 4, 3, 1, emit=True))
    r2b = require_ok(run_tlc("NamedPaths", "_gen_NP_one.cfg", timeout=900, keep_stdout=False), "NamedPaths single adds")
    rep.add_tlc("NamedPaths every single add of a list of <= 3 members", r2b)
    hists += list(r2b.records)
    with open(os.path.join(spec, "_gen_NP_sim.cfg"), "w") as f:
        f.write(_cfg(4, 3, sim[1], emit=True))
    r3 = require_ok(run_tlc("NamedPaths", "_gen_NP_sim.cfg", timeout=600, keep_stdout=False, workers=1,
                            simulate=f"num={sim[0]}", depth=sim[1] + 1, seed=common.seed() + 12), "NamedPaths simulate")
    rep.add_tlc(f"NamedPaths -simulate num={sim[0]} depth={sim[1]} (4 members)", r3)
    hists += list(r3.records)
    if not hists:
        raise MachineryError("no histories emitted")
    bad = common.pmap(_replay, [(common.seed(), i, h) for i, h in enumerate(hists)], initializer=scratch.enter_scratch)
    rep.traces = len(hists)
    rep.evaluations = sum(len(h) for h in hists)
    for h in hists:
        ops = tuple((s["op"]["k"], s["op"]["g"], json.dumps(s["op"]["l"])) for s in h)
        if any(o[0] == "add" for o in ops):
            rep.nontrivial_case(ops)
    rng = random.Random(common.seed())
    rep.sample({"history": [s["op"] for s in hists[0]], "example_member_text": member_text(rng, 1, "i1")})
    for d in bad:
        if d is not None:
            rep.violation(d)
    probe = _marker_probe()
    if probe is not None:
        rep.violation(probe, finding="C12-separator-text-inside-a-csvpath")
    rep.extra["histories_replayed"] = len(hists)
    rep.rule = ("operations add/re-add/replace(group in 2, list of 1-3 distinct members) / remove / new instance; member tokens are "
                "concretised per history by generated csvpaths with outer comments (identity in any of the six spellings, decoys of lower "
                "precedence, other fields, free text), inner comments and newlines; after every operation get_named_paths(name), name#id, "
                "$name.csvpaths.id[:from|:to] and the manifest are compared with the specification. non-trivial = contains an add.")
    rep.assumptions = ["TLC; texts compared up to surrounding whitespace (the statement)", "selections only for identities present in the stored group"]
    return rep.finish()


def replay(path):
    with open(path) as f:
        print(f.read()[:4000])
    return 0
