"""C20 — data and values flow between csvpaths as declared.

Spec: spec/Chain.tla (Input(m) = what stage m-1 collected iff stage m declares source-mode
preceding; invariants Composition - chain == composition of its stages - and NoLeak, checked by TLC
over all abstract filter stages) and spec/ChainTrace.tla, which validates recorded runs: the records
each member was actually shown must equal Chain!Input, its manifest must name the right actual
input, and every $name.variables.v[.key] / $name.headers.h reference must evaluate to what
Chain's RefVariable/RefHeader give for the referenced member's most recent run. Every stage's run in
its chain must be the run of that csvpath alone over the required input (spec/SameRun.tla)."""
import json
import os
import random

from lib import common, gen, grouprun, lang, pharness, runner, runtrace, samerun, scratch
from lib.runner import OutOfModel, txt
from lib.tlc import run_tlc, require_ok, MachineryError

PID = "C20"


def _lines_enc(lines):
    return [[txt(str(c)) for c in l] for l in lines]


def _run_group(cp, group, method="collect_paths", filename="data"):
    r = grouprun.Recorder()
    raised = None
    try:
        r.install()
        try:
            pharness.run_method(cp, method, group, filename)
        except Exception as e:
            import traceback

            raised = f"{type(e).__name__}: {e}"[:300] + traceback.format_exc()[-500:]
    finally:
        r.uninstall()
    return r, raised


def _chain(args):
    seed, idx = args
    rng = random.Random(seed * 100043 + idx)
    fs = lang.FileSpec(rng, max_rows=8, named_header=False, allow_blank=True)
    n = rng.choice([2, 2, 3, 3, 4])
    first_prec = rng.randint(1, n - 1)          # source-mode preceding on the suffix first_prec..n-1
    members = []
    for i in range(n):
        g = gen.Gen(rng, fs, AND=True, groups=("core",))
        prog = g.program(ncomps=rng.choice([1, 1, 2]))
        if rng.random() < 0.7:
            prog["scan"] = lang.scan("all")      # filters that keep something, so that chains have data to pass on
        if rng.random() < 0.4:
            prog["comps"] = [lang.hdr(rng.randint(0, fs.ncols - 1))]
            prog["initVars"] = lang.init_vars(prog)
        members.append({"prog": prog, "cfg": {"AND": True, "noMatches": False, "keepUnmatched": False, "collecting": True, "noRun": False, "nexts": 0}})
    texts = []
    for i, mc in enumerate(members):
        texts.append(grouprun.member_text(mc, ident=f"s{i}", extra_comment="source-mode: preceding" if i >= first_prec else None))
    method = rng.choice(["collect_paths", "collect_paths", "next_paths"])
    # the dialect of the run: what a member hands on is read by the next member with the same delimiter and quote character
    dia = rng.choice([{}, {}, {"delimiter": ";", "quotechar": '"'}, {"delimiter": "|", "quotechar": "'"}, {"delimiter": "\t", "quotechar": '"'}])
    with scratch.silence():
        cp = grouprun.setup_project("chain", fs.records, {"g": texts}, **dia)
        rec, raised = _run_group(cp, "g", method)
    info = {"texts": texts, "records": fs.records, "method": method, "first_preceding": first_prec, "dialect": dia}
    if raised:
        return {"violation": {"kind": "chain", "what": "the chained run raised", "raised": raised, **info}}
    if len(rec.members) != n:
        return {"harness": "member count", **info}
    archive = cp.config.archive_path
    rd = pharness.run_dirs(archive, "g")[-1]
    named_file = cp.file_manager.get_named_file("data")
    stages, traces, same = [], [], []
    prev_returned = None
    for i, mc in enumerate(members):
        ev = rec.members[i]["events"]
        shown = [e["line"] for e in ev]
        returned = [e["line"] for e in ev if e["ret"]]
        man = pharness.read_json(os.path.join(archive, "g", rd, f"s{i}", "manifest.json"))
        adf = man.get("actual_data_file") or ""
        if i > 0 and adf.endswith(os.path.join(f"s{i-1}", "data.csv")) and os.path.join("g", rd) in adf:
            src = "pred"
        elif adf == named_file:
            src = "orig"
        else:
            src = "?" + adf
        prec = i >= first_prec
        # the run machine is only asked about the input Chain.tla requires; a member that stops early
        # is shown a prefix of it, which RunTrace accepts or rejects on its own grounds
        required = prev_returned if (prec and i > 0) else fs.records
        stages.append({"prec": prec, "shown": _lines_enc(shown), "returned": _lines_enc(returned), "src": src,
                       "_required": required, "_nshown": len(shown)})
        try:
            tr = grouprun.member_trace(idx * 10 + i, mc, rec.members[i], collecting=(method == "collect_paths"), records=required)
        except OutOfModel:
            return {"oom": True}
        traces.append(tr)
        # the stage alone over the input Chain.tla requires: its run in the chain must be that run (SameRun.tla)
        alone, _ = runtrace.run_case({"tid": idx * 10 + i + 5000000, "prog": mc["prog"], "records": [list(r) for r in required], "cfg": dict(mc["cfg"]),
                                      "dialect": dia}, "collect")
        if alone is None:
            return {"oom": True}
        same.append(samerun.case(idx * 10 + i, alone, [samerun.other(tr, "same", lines=False, unmatched=False)]))
        prev_returned = returned
    # a member that stopped before the end of its input was shown only a prefix: compare prefixes
    enc_stages = []
    for i, s in enumerate(stages):
        req = _lines_enc(s["_required"])
        enc_stages.append({"prec": s["prec"], "shown": s["shown"], "returned": s["returned"], "src": s["src"], "nshown": s["_nshown"]})
    case = {"tid": idx, "kind": "chain", "file": _lines_enc(fs.records), "stages": enc_stages}
    return {"case": case, "traces": traces, "info": info, "same": same}


def _var_targets(prog):
    plain, tracked = [], []
    for c in prog["comps"]:
        if c["k"] == "assign":
            v = c["args"][0]
            nonkw = [q for q in v["quals"] if q not in lang.KEYWORDS]
            if nonkw:
                tracked.append((v["name"], nonkw[0]))
            elif not v["quals"]:
                plain.append(v["name"])
    return plain, tracked


def _refs(args):
    seed, idx = args
    rng = random.Random(seed * 100057 + idx)
    # ragged rows: a header reference skips the collected rows that do not reach its column
    fs = lang.FileSpec(rng, max_rows=6, named_header=True, allow_blank=False, allow_ragged=True)
    g = gen.Gen(rng, fs, AND=True, groups=("core",))
    comps = []
    for _ in range(rng.choice([2, 3])):
        a = g.assignment()
        g.register(a)
        comps.append(a)
    prog = {"scan": lang.scan("from", 1), "comps": comps}
    prog["initVars"] = lang.init_vars(prog)
    g1 = {"prog": prog, "cfg": {"AND": True, "noMatches": False, "keepUnmatched": False, "collecting": True, "noRun": False, "nexts": 0}}
    plain, tracked = _var_targets(prog)
    text1 = grouprun.member_text(g1, ident="a")
    # the referenced group may have a second member that assigns some of the same variables: the group's variable is
    # what the run left in it, i.e. the later member's value (docs/variables.md, "Sharing Variables")
    texts1 = [text1]
    second = rng.random() < 0.4
    if second:
        over = [n for n in plain if rng.random() < 0.6] or plain[:1]
        comps_b = [f'@{n} = "from-b-{j}"' for j, n in enumerate(over)] + ["@onlyb = count_lines()"]
        # a tracking variable of the same name with ANOTHER key: the later member's dictionary is the group's variable
        over_t = [(n, k) for (n, k) in tracked if rng.random() < 0.7]
        comps_b += [f'@{n}.kb = "tb-{j}"' for j, (n, k) in enumerate(over_t)]
        if plain and rng.random() < 0.6:
            # the second member looks at the group's variables while the group is still running (its sibling's value): what a LATER
            # reference sees is still what the run left, not what was there when somebody first looked
            comps_b.insert(rng.randint(0, len(comps_b)), f"@peek = $g1.variables.{rng.choice(plain)}")
        texts1.append("~ id: b ~ $data[1*][ " + " ".join(comps_b) + " ]")
    nruns = rng.choice([1, 2, 3])
    clock = pharness.FakeClock()
    clock.install()
    try:
        with scratch.silence():
            cp = grouprun.setup_project("refs", fs.records, {"g1": texts1})
            last_records = fs.records
            had_lines = []
            for r_i in range(nruns):
                clock.t = 36000 + 5 * r_i
                if r_i > 0:
                    # the data changes between runs, so that "most recent run" is observable; the last of several runs sometimes
                    # finds nothing to collect: the most recent run is still that one
                    nrows = 0 if (r_i == nruns - 1 and not second and rng.random() < 0.3) else rng.randint(1, 5)
                    rows = [list(fs.names)] + [[lang.FileSpec.cell(rng, kd) for kd in fs.kinds] for _ in range(nrows)]
                    # rows may stop short, but never before the columns the generated assignments rely on
                    rows = [rw if (j == 0 or rng.random() < 0.55) else rw[: rng.randint(fs.minlen, fs.ncols)] for j, rw in enumerate(rows)]
                    runner.write_csv("src/data.csv", rows)
                    cp.file_manager.add_named_file(name="data", path="src/data.csv")
                    last_records = rows
                rec1, raised = _run_group(cp, "g1")
                had_lines.append(bool(rec1 is not None and rec1.members and any(e["ret"] for e in rec1.members[0]["events"])))
                if r_i == 0 and nruns > 1 and not second and not raised and had_lines[-1] and rng.random() < 0.5:
                    # the same reference string is used early and again after later runs: ':last' is resolved each time it is used
                    cp.paths_manager.add_named_paths(name="g3", paths=["~ id: c0 ~ $x[*][ yes() ]"])
                    clock.t += 2
                    _run_group(cp, "g3", filename="$g1.results.:last.a")
                if raised:
                    return {"violation": {"kind": "refs", "what": "the referenced group raised", "raised": raised, "text": text1, "records": last_records}}
            res1 = cp.results_manager.get_named_results("g1")[0]
            src_vars = dict(res1.csvpath.variables)
            member_vars = [dict(r.csvpath.variables) for r in cp.results_manager.get_named_results("g1")]
            src_headers = list(res1.csvpath.headers)
            ev = rec1.members[0]["events"]
            src_lines = [e["line"] for e in ev if e["ret"]]
            try:
                tr1 = grouprun.member_trace(idx * 10, g1, rec1.members[0], collecting=True, records=last_records)
            except OutOfModel:
                return {"oom": True}
            # the referring group
            refs, comps2 = [], []
            k = 0
            for name in plain + (["onlyb"] if second else []):
                if any(name in mv for mv in member_vars):
                    comps2.append(f"@r{k} = $g1.variables.{name}")
                    refs.append({"what": "variable", "name": name, "key": [], "hname": [], "var": f"r{k}"})
                    k += 1
            for name, key in tracked + ([(n, "kb") for (n, _) in tracked] if second else []):
                if any(name in mv for mv in member_vars):
                    comps2.append(f"@r{k} = $g1.variables.{name}.{key}")
                    refs.append({"what": "variable", "name": name, "key": txt(key), "hname": [], "var": f"r{k}"})
                    k += 1
            if src_lines and not second:          # a header reference to a group of several members needs an identity
                # a column that short rows may stop just before
                h = rng.choice(fs.names[1:]) if (len(fs.names) > 1 and rng.random() < 0.8) else rng.choice(fs.names)
                comps2.append(f"@r{k} = $g1.headers.{h}")
                refs.append({"what": "header", "name": "", "key": [], "hname": txt(h), "var": f"r{k}"})
                k += 1
            stale_probe = (not src_lines) and (not second) and any(had_lines[:-1])
            if stale_probe:
                # the most recent run of g1 collected nothing for member a, an earlier run did: a replay of $g1.results.:last.a has
                # nothing to read (it may be refused); it must not read the older run's lines. Judged by ChainTrace: file = <<>>.
                cp.paths_manager.add_named_paths(name="g3", paths=["~ id: c0 ~ $x[*][ yes() ]"])
                clock.t += 3
                rec3, raised3 = _run_group(cp, "g3", filename="$g1.results.:last.a")
                if raised3 or rec3 is None or not rec3.members:
                    return {"skip": True}
                evj = rec3.members[0]["events"]
                st3 = [{"prec": False, "shown": _lines_enc([e["line"] for e in evj]), "returned": _lines_enc([e["line"] for e in evj if e["ret"]]),
                        "src": "orig", "nshown": len(evj)}]
                return {"case": None, "traces": [], "info": {"referenced": texts1, "runs_of_referenced_group": nruns, "records": last_records,
                                                              "replaying": ["~ id: c0 ~ $x[*][ yes() ]"], "note": "the most recent run collected no lines"},
                        "extra_case": {"tid": idx + 500000, "kind": "chain", "file": [], "stages": st3}}
            if not comps2:
                return {"skip": True}
            text2 = "~ id: b ~ $data[1][ " + " ".join(comps2) + " ]"
            clock.t += 7
            cp.paths_manager.add_named_paths(name="g2", paths=[text2])
            rec2, raised2 = _run_group(cp, "g2")
            info = {"referenced": texts1, "referring": text2, "runs_of_referenced_group": nruns, "records": last_records}
            if raised2:
                return {"violation": {"kind": "refs", "what": "the referring group raised", "raised": raised2, **info}}
            p2 = rec2.members[0]["p"]
            try:
                for r in refs:
                    r["got"] = runtrace.enc_insertion(p2.variables.get(r.pop("var")))
                case = {"tid": idx, "kind": "refs", "mvars": [[{"n": n, "v": runtrace.enc_insertion(v)} for n, v in mv.items()] for mv in member_vars],
                        "lines": _lines_enc(src_lines), "headers": [txt(h) for h in src_headers], "refs": refs}
            except OutOfModel:
                return {"oom": True}
            # a results reference used as the file name replays the referenced member's data.csv; the group that
            # replays it may itself be a chain: its first member reads the replayed data, a source-mode: preceding
            # member reads what its predecessor collected from it
            replay_case = None
            if src_lines and not second:
                nm = rng.choice([1, 2, 3])
                filt = []
                for j in range(nm):
                    c = rng.choice(["yes()", "yes()"] + [f"#{x}" for x in range(fs.ncols)] + [f"not(#{fs.ncols - 1})", "firstscan()", "not(firstscan())"])
                    filt.append(c)
                precs = [False] + [rng.random() < 0.75 for _ in range(nm - 1)]
                texts3 = [f"~ id: c{j} " + ("source-mode: preceding " if precs[j] else "") + f"~ $x[*][ {filt[j]} ]" for j in range(nm)]
                cp.paths_manager.add_named_paths(name="g3", paths=texts3)
                clock.t += 3
                rec3, raised3 = _run_group(cp, "g3", filename="$g1.results.:last.a")
                info = dict(info, replaying=texts3)
                if raised3:
                    if "FileNotFoundError" in raised3 and "data.csv" in raised3:
                        return {"violation": {"kind": "chain", "what": "the chained run raised", "raised": raised3, **info}}
                    return {"violation": {"kind": "refs", "what": "replaying $g1.results.:last.a raised", "raised": raised3, **info}}
                archive = cp.config.archive_path
                rd1 = pharness.run_dirs(archive, "g1")[-1]
                rd3 = pharness.run_dirs(archive, "g3")[-1]
                origin = os.path.join(archive, "g1", rd1, "a", "data.csv")
                # in Chain's terms the file of this run is the replayed data: exactly the lines the referenced member collected
                st3 = []
                for j in range(nm):
                    evj = rec3.members[j]["events"] if j < len(rec3.members) else []
                    man = pharness.read_json(os.path.join(archive, "g3", rd3, f"c{j}", "manifest.json"))
                    adf = man.get("actual_data_file") or ""
                    if j > 0 and adf.endswith(os.path.join(f"c{j-1}", "data.csv")) and os.path.join("g3", rd3) in adf:
                        src = "pred"
                    elif os.path.abspath(adf) == os.path.abspath(origin):
                        src = "orig"
                    else:
                        src = "?" + adf
                    st3.append({"prec": precs[j], "shown": _lines_enc([e["line"] for e in evj]),
                                "returned": _lines_enc([e["line"] for e in evj if e["ret"]]), "src": src, "nshown": len(evj)})
                replay_case = {"tid": idx + 500000, "kind": "chain", "file": _lines_enc(src_lines), "stages": st3}
    finally:
        clock.uninstall()
    return {"case": case, "traces": [tr1], "info": info, "extra_case": replay_case}


def main(tier):
    rep = common.Report(PID, tier)
    r0 = require_ok(run_tlc("Chain", "MC_Chain.cfg", timeout=600, keep_stdout=False), "MC_Chain")
    rep.add_tlc("Chain: all filter stages over 3 records, 3 stages, preceding on any subset; Composition, NoLeak", r0)
    if r0.invariant_violated:
        rep.violation({"kind": "spec", "invariant": r0.invariant_violated})
        return rep.finish()
    nch, nref = (80, 90) if tier == "quick" else (1500, 1200)
    outs = common.pmap(_chain, [(common.seed(), i) for i in range(nch)], initializer=scratch.enter_scratch, chunksize=2)
    outs += common.pmap(_refs, [(common.seed(), 100000 + i) for i in range(nref)], initializer=scratch.enter_scratch, chunksize=2)
    cases, traces, infos, oom, skipped, same = [], [], {}, 0, 0, []
    for o in outs:
        if o.get("oom"):
            oom += 1
        elif o.get("skip"):
            skipped += 1
        elif "harness" in o:
            raise MachineryError(json.dumps(o)[:1200])
        elif "violation" in o:
            rep.violation(o["violation"], finding=classify(o["violation"]))
        else:
            if o["case"] is not None:
                cases.append(o["case"])
                infos[o["case"]["tid"]] = o["info"]
            if o.get("extra_case"):
                cases.append(o["extra_case"])
                infos[o["extra_case"]["tid"]] = dict(o["info"], replay_by_reference=True)
            traces += o["traces"]
            same += o.get("same", [])
            for c in o.get("same", []):
                infos.setdefault(("same", c["tid"]), o["info"])
    # stage behaviour on the required input: the stage's run in the chain is its run alone over that input
    if same:
        rs, sv = samerun.validate(same)
        rep.add_tlc("SameRun: every stage in its chain against the stage alone over the input Chain.tla requires", rs)
        for c in same:
            v = sv[c["tid"]]
            if v["verdict"] != "ok":
                rep.violation({"kind": "stage-is-not-its-run-over-the-required-input", "field": v["verdict"], "at_call": v.get("expected"),
                               "stage": c["tid"] % 10, "info": infos.get(("same", c["tid"]))})
    # informational: the same traces against the run machine (what a run should be is C01/C03/C04/C13's business)
    rejected_n = 0
    if traces:
        res, verdicts = runtrace.validate(traces, dev=("AboveCellsAsText", "LtIsLe"))
        rep.add_tlc("RunTrace (informational): every stage on the input Chain.tla requires", res)
        rejected_n = sum(1 for t in traces if verdicts[t["tid"]][0] != "ok")
    rep.extra["stage_traces_rejected_by_the_run_machine_not_judged_here"] = rejected_n
    if cases:
        base = scratch._base()
        path = os.path.join(base, "ctraces.ndjson")
        with open(path, "w") as f:
            for c in cases:
                f.write(json.dumps(c, separators=(",", ":")) + "\n")
        res = require_ok(run_tlc("ChainTrace", "ChainTrace.cfg", env={"TRACE_FILE": path}, timeout=900, keep_stdout=False), "ChainTrace")
        os.remove(path)
        rep.add_tlc("ChainTrace: stage inputs, actual_data_file, reference values", res)
        got = {v["tid"]: v for v in res.tags.get("V", [])}
        for c in cases:
            v = got.get(c["tid"])
            if v is None:
                raise MachineryError("no verdict from ChainTrace")
            if v["verdict"] != "ok":
                rep.violation({"kind": c["kind"], "verdict": v["verdict"], "at": v["at"], "expected": v.get("expected"),
                               "stages_src": [s["src"] for s in c.get("stages", [])], "refs": c.get("refs"), **infos[c["tid"]]})
    rep.traces = len(cases) + len(traces)
    rep.evaluations = len(cases) + len(traces)
    for c in cases:
        rep.nontrivial_case(json.dumps(infos[c["tid"]], sort_keys=True, default=str)[:2000])
    for c in cases[:: max(1, len(cases) // 3)][:3]:
        rep.sample(infos[c["tid"]])
    rep.extra.update({"chains": nch, "reference_cases": nref, "out_of_model": oom, "reference_cases_without_referable_variables": skipped})
    rep.rule = ("chains of 2-4 generated filter csvpaths with source-mode preceding on a suffix, run with collect_paths/next_paths(collect); "
                "reference cases: a group run 1-3 times on one instance (its file re-registered with new content between runs, fake clock), "
                "then a group assigning from $g.variables.v, $g.variables.v.key and $g.headers.h, then a group replaying $g.results.:last.<id>. "
                "non-trivial = distinct case.")
    rep.assumptions = ["TLC; ChainTrace.tla and RunTrace.tla", "the referenced group has one member (references to multi-member groups need an identity)"]
    return rep.finish()


def classify(v):
    # known finding: the predecessor of a source-mode: preceding member collected no lines, so there is no data.csv
    if v.get("what") == "the chained run raised" and "FileNotFoundError" in (v.get("raised") or "") and "data.csv" in (v.get("raised") or ""):
        return "C20-preceding-member-collected-nothing"
    return None


def replay(path):
    with open(path) as f:
        print(f.read()[:4000])
    return 0
