"""The error handler inside whole runs (Eval!Flush = ErrorPolicy!HandleN): typed generated csvpaths with error-provoking components at
any position among other components, under a random policy and random validation-mode overrides, validated call by call by RunTrace.
Shared by C05 (which judges everything the handler does) and C04 (which judges the verdict)."""
import random

from lib import common, gen, runtrace, scratch

# ---- the error handler inside whole runs: generated programs with error-provoking components -------------------------------
ERR_JUDGED = {"errors", "errors_printed", "raised", "final_errors", "valid", "final_valid", "stopped", "returned", "final_returned",
              "extra_event", "missing_event", "k"}


def _err_case(args):
    seed, tid, groups = args
    rng = random.Random(seed * 1000003 + tid)
    case = gen.make_case(rng, tid, groups=groups)
    rec, info = runtrace.run_case(case, "collect")
    return rec, info


def error_runs(rep, tier, judged, groups=("core", "errors"), n=None, salt=505):
    """ErrorPolicy!HandleN inside the run machine (Eval!Flush): typed generated csvpaths with 'err' components (add(#c, 1) over cells
    that need not be numbers) at any position among other components, under a random policy and random validation-mode overrides,
    validated call by call by RunTrace: the collected records with their line numbers, the line on which messages were printed, the
    verdict, the stop, the exception that ends the run, and the returned lines."""
    n = n or (1500 if tier == "quick" else 20000)
    outs = common.pmap(_err_case, [(common.seed() + salt, i, tuple(groups)) for i in range(n)], initializer=scratch.enter_scratch)
    recs = [r for r, _ in outs if r is not None]
    infos = {r["tid"]: i for r, i in outs if r is not None}
    verdicts = {}
    for b in range(0, len(recs), 4000):
        res, v = runtrace.validate(recs[b:b + 4000])
        rep.add_tlc(f"RunTrace with error components (Eval!Flush = ErrorPolicy!HandleN) batch {b // 4000}", res)
        verdicts.update(v)
    rejected = [r for r in recs if verdicts[r["tid"]][0] != "ok"]
    if rejected:
        res2, v2 = runtrace.validate(rejected, dev=("AboveCellsAsText", "LtIsLe"))
        rep.add_tlc("RunTrace with error components under the deviations of C01's listed findings", res2)
        unjudged = 0
        for r in rejected:
            verdict, at, exp = v2[r["tid"]]
            if verdict == "ok":
                continue
            if verdict.split(":")[0] not in judged:
                unjudged += 1
                continue
            info = infos[r["tid"]]
            rep.violation({"kind": "error-run-rejected", "field": verdict, "at_event": at, "csvpath": info["csvpath"], "file_records": info["records"],
                           "policy": r["cfg"].get("policy"), "validation_mode": r["cfg"].get("vm"), "expected_by_spec": exp,
                           "impl_event": info["events"][at - 1] if 0 < at <= len(info["events"]) else None, "raised": info.get("raised")})
        rep.extra["error_runs_rejected_in_fields_judged_elsewhere"] = unjudged
    with_err = sum(1 for r in recs if r["events"] and r["events"][-1]["nerrors"] > 0 or r["final"]["raised"])
    rep.extra.update({"error_runs": len(recs), "error_runs_with_a_handled_error": with_err,
                      "error_runs_that_raised": sum(1 for r in recs if r["final"]["raised"]),
                      "error_runs_stopped_by_the_policy": sum(1 for r in recs if r["events"] and r["events"][-1]["stopped"] and r["events"][-1]["nerrors"] > 0)})
    rep.evaluations += len(recs)
    rep.traces += len(recs)


