"""C07 — collect(), next() and fast_forward() are the same run; collect(nexts=n) is a prefix.

The run machine is deterministic, so two accepted traces of the same case are the same run: every
method's trace and final state must be accepted by RunTrace for the same (program, file)."""
from checks import runfam

PID = "C07"
JUDGED = set(runfam.FIELD_OWNER)  # every field: the statement lists lines, variables, counters, validity, stop state, printouts


def main(tier):
    n = 250 if tier == "quick" else 4000
    return runfam.run(PID, tier, groups=("core", "control", "validity", "rewrite"), judged=JUDGED, ncases=n,
                      methods=("collect", "next", "fast_forward", "nexts"), seed_salt=700)


def replay(path):
    return runfam.replay(path, PID)
