"""C07 — collect(), next() and fast_forward() are the same run; collect(nexts=n) is a prefix.

Spec: spec/SameRun.tla - the relation "these recorded executions are one run": every _consider_line call of next() and of
fast_forward() leaves the state collect() left after the same call (line, returned or not, counters, stop state, validity,
votes, variables, printouts), the runs have the same number of calls and end in the same final state (and the same delivered
lines where a method delivers lines); collect(nexts=n) is the base run cut after the call that returned the n-th line, with the
final state of exactly that moment (no side effect of a later line) and the first n lines. Each generated case (typed programs
with control, validity and line-rewriting functions over typed files) is run for real with collect(), next(), fast_forward() and
collect(nexts=1..matches+1); TLC validates the relation. What the run should BE is C01/C03/C04/C13's business: the same traces
are also validated against the run machine (RunTrace) and the count of rejections is reported in the evidence, but a run that all
methods agree on is not a C07 violation."""
import json

from checks import runfam
from lib import common, runtrace, samerun, scratch
from lib.tlc import MachineryError

PID = "C07"
METHODS = ("collect", "next", "fast_forward", "nexts")


def main(tier):
    rep = common.Report(PID, tier)
    n = 600 if tier == "quick" else 5000
    seed = common.seed() + 700
    items = [(seed, i, ("core", "control", "validity", "rewrite"), METHODS, {"ragged_collect": True, "nomatch_p": 0.3}) for i in range(n)]
    results = common.pmap(runfam._work, items, initializer=scratch.enter_scratch)
    cases, infos, all_traces, oom = [], {}, [], 0
    for idx, lst in enumerate(results):
        recs = []
        for r in lst:
            if r[0] == "harness":
                raise MachineryError(f"harness failure on {r[2]}:\n{r[1]}")
            rec, info, m = r
            if rec is None:
                oom += 1
                recs = None
                break
            recs.append((rec, info, m))
        if not recs:
            continue
        base = next((x for x in recs if x[2] == "collect" and x[0]["cfg"]["nexts"] == 0), None)
        if base is None:
            continue
        others = []
        for rec, info, m in recs:
            if rec is base[0]:
                continue
            if m == "next":
                others.append(samerun.other(rec, "same", lines=True, unmatched=False))
            elif m == "fast_forward":
                others.append(samerun.other(rec, "same", lines=False, unmatched=False))
            else:
                others.append(samerun.other(rec, "prefix", n=rec["cfg"]["nexts"]))
        cases.append(samerun.case(idx, base[0], others))
        infos[idx] = {"csvpath": base[1]["csvpath"], "file_records": base[1]["records"],
                      "runs": [("collect(nexts=%d)" % r["cfg"]["nexts"]) if (m == "collect" and r["cfg"]["nexts"]) else m for r, _, m in recs]}
        all_traces += [r for r, i_, _ in recs if not i_.get("ragged_collect")]   # the run machine does not model a failing hand-over
    res, verdicts = samerun.validate(cases)
    rep.add_tlc("SameRun: next(), fast_forward() and collect(nexts=n) against collect()", res)
    for c in cases:
        v = verdicts[c["tid"]]
        if v["verdict"] != "ok":
            info = infos[c["tid"]]
            which = info["runs"][v["at"]] if 0 < v["at"] < len(info["runs"]) else "?"
            rep.violation({"kind": "not-the-same-run", "field": v["verdict"], "run_that_differs_from_collect": which, "at_call": v.get("expected"), **info})
    # informational: the same traces against the run machine (what the run should be is judged by C01/C03/C04/C13)
    rejected = 0
    for b in range(0, len(all_traces), 4000):
        r2, v2 = runtrace.validate(all_traces[b:b + 4000], dev=("AboveCellsAsText", "LtIsLe"))
        rep.add_tlc(f"RunTrace (informational, deviations of C01's listed findings) batch {b // 4000}", r2)
        rejected += sum(1 for t in all_traces[b:b + 4000] if v2[t["tid"]][0] != "ok")
    rep.traces = len(all_traces)
    rep.evaluations = len(all_traces)
    for c in cases:
        if len(c["base"]["events"]) > 0:
            rep.nontrivial_case(infos[c["tid"]]["csvpath"] + json.dumps(infos[c["tid"]]["file_records"]))
    for c in cases[:: max(1, len(cases) // 4)][:4]:
        rep.sample({**infos[c["tid"]], "verdict": verdicts[c["tid"]]["verdict"]})
    rep.extra.update({"cases": len(cases), "out_of_model_cases": oom, "traces_rejected_by_the_run_machine_not_judged_here": rejected,
                      "function_groups": ["core", "control", "validity", "rewrite"]})
    rep.rule = ("seeded random well-typed csvpaths (lib/gen.py; control, validity and line-rewriting functions) over typed random files; each case run "
                "with collect(), next(), fast_forward() and collect(nexts=n) for n in 1..matches+1 (at most 6); TLC validates the relation of "
                "SameRun.tla on the recorded executions. non-trivial = a distinct (csvpath, file) whose run considered at least one line.")
    rep.assumptions = ["TLC 1.8; spec/SameRun.tla", "projection: lib/runner.snapshot after every _consider_line call, lib/runtrace._norm_vars",
                       "_freeze_path after an abandoned generator is not compared"]
    return rep.finish()


def replay(path):
    return runfam.replay(path, PID)
