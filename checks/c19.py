"""C19 — results depend only on the csvpath, the file and the configuration.

Spec: spec/History.tla — jobs run "direct", as named runs on one shared named-file name ("named"), or through a CsvPaths instance ("paths", the route that
consults the on-disk line-count/header cache), NewProcess (registries reset, disk cache kept),
ClearCache; the property HistoryFree says a job's result is a function of the job alone in every
reachable state. TLC checks it on the spec and emits every history up to a length; each history
is replayed with real interpreter processes (one fresh python per NewProcess segment) sharing a
scratch cache directory, and each job's full result tuple (lines, variables, printouts, errors,
verdict, counters, headers) is compared with the same job run first in a fresh process with an
empty cache. The fresh-process results are themselves validated against the run machine
(RunTrace) by C01/C03; here the relation between histories is what is judged."""
import json
import os
import random
import shutil
import subprocess
import sys

from lib import common, gen, lang, runner, scratch
from lib.tlc import run_tlc, require_ok, MachineryError

PID = "C19"
WORKER = os.path.join(common.VERIF, "lib", "history_worker.py")
NASTY_HEADERS = ['"q', 'a"b', "x y", " lead", "trail ", "it's", "semi;colon", "com,ma", "pi|pe", "plain", "'s", '""', "é",
                 # cleaning a header name (strip, then delete , ; | tab `) is not idempotent on these
                 ", name", "end ;", "| p", "` tick", "t\t ab"]


def run_process(d, steps, hashseed="0"):
    # every interpreter gets its own string-hash seed (as separate processes of a user do): results must not depend on it
    p = subprocess.run(["/venv/bin/python", WORKER], input=json.dumps({"dir": d, "steps": steps}), capture_output=True, text=True, timeout=300,
                       env={**os.environ, "PYTHONHASHSEED": hashseed})
    if p.returncode != 0:
        raise MachineryError(f"history worker failed: {p.stderr[-1500:]}")
    return json.loads(p.stdout)


def make_jobs(rng, d, njobs, nfiles):
    """files whose header cells contain quotes, delimiters and spaces; jobs from the typed generator"""
    files = []
    for f in range(nfiles):
        fs = lang.FileSpec(rng, max_rows=6, named_header=False)
        ncols = fs.ncols
        hdr = [rng.choice(NASTY_HEADERS) for _ in range(ncols)]
        if rng.random() < 0.6:
            hdr[rng.randrange(ncols)] = rng.choice(NASTY_HEADERS[-5:])      # a name on which cleaning is not idempotent
        dia = {"delimiter": rng.choice([",", ";", "|"]), "quotechar": rng.choice(['"', "'"])}
        records = [hdr] + fs.records
        tiny = rng.random() < 0.2
        if tiny:
            records = [hdr]          # a file of one physical line: every count and line number of it is 0 or 1 - also when cached
        # the same file name in different directories: a registration is known by its content AND its source file name
        os.makedirs(os.path.join(d, f"d{f}"), exist_ok=True)
        path = os.path.join(f"d{f}", "data.csv")
        runner.write_csv(os.path.join(d, path), records, **dia)
        # the file that may later be put at the same path (History!Rewrite): same header row and column kinds, other rows
        rows2 = [hdr] + [[lang.FileSpec.cell(rng, kd) for kd in fs.kinds] for _ in range(rng.randint(1, 7))]
        runner.write_csv(os.path.join(d, path + ".v2"), rows2, **dia)
        shutil.copyfile(os.path.join(d, path), os.path.join(d, path + ".v1"))
        files.append((path, fs, dia, records, tiny))
    jobs = []
    for j in range(njobs):
        path, fs, dia, records, tiny = files[j % nfiles]
        if tiny:
            # what the run knows about the end of a one-line file: last(), the line counts, the stop at the scan's end
            text = f'${path}[*][ @n = count_lines() @t = total_lines() last() -> @done = line_number() ' + rng.choice(["", "push(\"ln\", line_number()) ", "last() "]) + "]"
            jobs.append({"op": "job", "text": text, "delimiter": dia["delimiter"], "quotechar": dia["quotechar"], "file": path})
            continue
        fs2 = lang.FileSpec.__new__(lang.FileSpec)
        fs2.__dict__.update(fs.__dict__)
        fs2.named = False
        # some jobs rewrite the line (replace/append/collect): append() adds to the header names of ITS run only
        g = gen.Gen(rng, fs2, AND=True, groups=("core", "rewrite") if rng.random() < 0.5 else ("core",))
        prog = g.program(ncomps=rng.choice([1, 2, 3]))
        # two jobs share a file (j and j + nfiles): the earlier one often appends a header, the later one looks at the header names
        if rng.random() < 0.7:
            if j < nfiles:
                ap = lang.fn("append", lang.term("extra"), lang.term("v"))
                ap["name_q"] = "apx"
                prog["comps"].append(ap)
            else:
                prog["comps"].append(lang.assign(lang.var("nh"), lang.fn("count_headers")))
                prog["comps"].append(lang.assign(lang.var("ex"), lang.hdr("extra")))
        if rng.random() < 0.4:
            # a component that keeps its state under a generated variable name (no name qualifier): the name is part of the results
            prog["comps"].append(rng.choice([lang.fn("every", lang.hdr(0), lang.term(2)), lang.fn("count", lang.fn("exists", lang.hdr(0))),
                                             lang.fn("count", lang.fn("yes"))]))
        prog["scan"] = lang.scan("from", 1)
        # header-name dependent results: capture the header names the run sees
        text = lang.render_csvpath(prog, path)
        jobs.append({"op": "job", "text": text, "delimiter": dia["delimiter"], "quotechar": dia["quotechar"], "file": path})
    return jobs, files


def aba(hist, nfiles):
    """a named run that re-registers the shared name to content it held before, with other content in between (History!BackToEarlier)"""
    return any(s["op"] == "job" and s["via"] == "named" and s["regBefore"] and s["regWas"] != ((s["j"] - 1) % nfiles) + 1 for s in hist)


def _replay(args):
    seed, idx, hist, njobs, nfiles = args
    rng = random.Random(seed * 9176 + idx)
    base = scratch.enter_scratch()
    d = os.path.join(base, f"hist{idx}")
    shutil.rmtree(d, ignore_errors=True)
    os.makedirs(os.path.join(d, "config"))
    scratch.write_config(os.path.join(d, "config", "config.ini"))
    jobs, files = make_jobs(rng, d, njobs, nfiles)
    # the oracle the quantifier names: each job run first, in a fresh process, with an empty cache
    ref = {}
    rewritten = {s["j"] for s in hist if s["op"] == "rewrite"}
    for j, job in enumerate(jobs):
        shutil.rmtree(os.path.join(d, "cache"), ignore_errors=True)
        ref[(j + 1, 1)] = run_process(d, [dict(job, via="direct")])[0]
        if ((j % nfiles) + 1) in rewritten:
            # the same job over the file that is put there later
            shutil.copyfile(os.path.join(d, job["file"] + ".v2"), os.path.join(d, job["file"]))
            shutil.rmtree(os.path.join(d, "cache"), ignore_errors=True)
            ref[(j + 1, 2)] = run_process(d, [dict(job, via="direct")])[0]
            shutil.copyfile(os.path.join(d, job["file"] + ".v1"), os.path.join(d, job["file"]))
    shutil.rmtree(os.path.join(d, "cache"), ignore_errors=True)
    shutil.rmtree(os.path.join(d, "archive"), ignore_errors=True)
    # the history, one interpreter per segment
    segs, cur = [], []
    for st in hist:
        if st["op"] == "newproc":
            segs.append(cur)
            cur = []
        elif st["op"] == "clearcache":
            cur.append({"op": "clearcache"})
        elif st["op"] == "rewrite":
            path = files[st["j"] - 1][0]
            cur.append({"op": "rewrite", "file": path, "v2": path + ".v2"})
        else:
            cur.append(dict(jobs[st["j"] - 1], via=st["via"], named=(st["via"] == "named"), _j=st["j"], _st=st))
    segs.append(cur)
    pos = 0
    for si, seg in enumerate(segs):
        if not seg:
            continue
        res = run_process(d, [{k: v for k, v in s.items() if not k.startswith("_")} for s in seg], hashseed=str(1 + (idx * 7 + si) % 4000))
        ri = 0
        for s in seg:
            if s["op"] != "job":
                continue
            got = res[ri]
            ri += 1
            exp = ref[(s["_j"], s["_st"]["ver"])]
            if got != exp:
                diff = [k for k in exp if got.get(k) != exp.get(k)]
                shutil.rmtree(d, ignore_errors=True)
                return {"kind": "history", "fields": diff, "job": s["text"], "via": s["via"], "cache_was": s["_st"]["cacheWas"],
                        "in_memory": s["_st"]["memWas"], "process_used_before": s["_st"]["usedWas"],
                        "history": [{k: h[k] for k in ("op", "j", "via")} for h in hist], "file_version": s["_st"]["ver"],
                        "expected": {k: exp[k] for k in diff}, "got": {k: got.get(k) for k in diff},
                        "file_header_row": next((f[3][0] for f in files if f[0] == s["file"]), None)}
    shutil.rmtree(d, ignore_errors=True)
    return None


def classify(d):
    return None


def main(tier):
    rep = common.Report(PID, tier)
    spec = os.path.join(common.VERIF, "spec")
    njobs, nfiles = 3, 2
    deep, emit_len, sim = (5, 3, (3, 5)) if tier == "quick" else (6, 4, (30, 6))

    def cfg(maxlen, emit=False, view=False):
        s = f"CONSTANTS\n  NJobs = {njobs}\n  NFiles = {nfiles}\n  MaxLen = {maxlen}\nINIT Init\nNEXT Next\nINVARIANT HistoryFree\n"
        if emit:
            s += "INVARIANT Emit\n"
        if view:
            s += "VIEW StoreView\n"
        return s + "CHECK_DEADLOCK FALSE\n"

    with open(os.path.join(spec, "_gen_H_deep.cfg"), "w") as f:
        f.write(cfg(deep, view=True))
    r1 = require_ok(run_tlc("History", "_gen_H_deep.cfg", timeout=900, keep_stdout=False), "History deep")
    rep.add_tlc(f"History: all sequences <= {deep} of jobs (3 jobs over 2 files, direct/paths), process boundaries, cache clears", r1)
    hists = []
    with open(os.path.join(spec, "_gen_H_emit.cfg"), "w") as f:
        f.write(cfg(emit_len, emit=True))
    r2 = require_ok(run_tlc("History", "_gen_H_emit.cfg", timeout=900, keep_stdout=False), "History emit")
    rep.add_tlc(f"History: every history of length {emit_len}", r2)
    full = [h for h in r2.records if sum(1 for s in h if s["op"] == "job") >= 2]
    # the situations that matter most: a job served from a warm disk cache by a process that does not hold it in memory
    key = [h for h in full if any(s["op"] == "job" and s["via"] in ("paths", "named") and s["cacheWas"] == "warm" and not s["memWas"] for s in h)]
    rest = [h for h in full if h not in key]
    rng = random.Random(common.seed() + 5)
    rng.shuffle(rest)
    cap = 60 if tier == "quick" else 1500
    hists += key[: cap] + rest[: max(0, cap - len(key))]
    # one name registered with content X, then Y, then X again (the jobs run as named runs)
    hists += [h for h in full if aba(h, nfiles) and h not in hists][: 12 if tier == "quick" else 200]
    # another file put at a path between two jobs on that path in one process (History!Rewrite)
    def rewritten_between(h):
        for i, s_ in enumerate(h):
            if s_["op"] == "rewrite":
                f_ = s_["j"]
                before = any(x["op"] == "job" and ((x["j"] - 1) % nfiles) + 1 == f_ for x in h[:i])
                after = any(x["op"] == "job" and ((x["j"] - 1) % nfiles) + 1 == f_ for x in h[i + 1:])
                if before and after:
                    return True
        return False
    rw = [h for h in full if rewritten_between(h) and h not in hists]
    rng.shuffle(rw)
    hists += rw[: 20 if tier == "quick" else 400]
    with open(os.path.join(spec, "_gen_H_sim.cfg"), "w") as f:
        f.write(cfg(sim[1], emit=True))
    r3 = require_ok(run_tlc("History", "_gen_H_sim.cfg", timeout=600, keep_stdout=False, workers=1, simulate=f"num={sim[0]}",
                            depth=sim[1] + 1, seed=common.seed() + 19), "History simulate")
    rep.add_tlc(f"History -simulate num={sim[0]} depth={sim[1]}", r3)
    hists += list(r3.records)
    hists = [h for h in hists if any(s["op"] == "job" for s in h)]
    bad = common.pmap(_replay, [(common.seed(), i, h, njobs, nfiles) for i, h in enumerate(hists)], initializer=scratch.enter_scratch, chunksize=1)
    rep.traces = len(hists)
    rep.evaluations = sum(1 for h in hists for s in h if s["op"] == "job")
    combos = set()
    for h in hists:
        rep.nontrivial_case(json.dumps([(s["op"], s["j"], s["via"]) for s in h]))
        for s in h:
            if s["op"] == "job":
                combos.add((s["via"], s["cacheWas"], s["memWas"], s["usedWas"]))
    for h in hists[:: max(1, len(hists) // 3)][:3]:
        rep.sample([{k: s[k] for k in ("op", "j", "via")} for s in h])
    for d in bad:
        if d is not None:
            rep.violation(d, finding=classify(d))
    rep.extra.update({"histories_replayed": len(hists), "situations_exercised (via, disk cache, in memory, process used before)": sorted(map(list, combos))})
    rep.rule = (f"histories over 3 generated (csvpath, file) jobs on 2 files whose header cells contain quotes, delimiters and blanks: all histories of "
                f"length {emit_len} and random ones of length {sim[1]} (jobs direct, through a CsvPaths instance or as named runs; new process; clear cache; another file put at a path), "
                "each segment in a fresh interpreter, compared with the same job run first in a fresh process with an empty cache.")
    rep.assumptions = ["TLC; History.tla", "one CsvPaths instance per process for the 'paths' route", "the reference processes run with PYTHONHASHSEED=0, every process of a history with another seed"]
    return rep.finish()


def replay(path):
    with open(path) as f:
        print(f.read()[:4000])
    return 0
