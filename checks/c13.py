"""C13 — stop, skip, advance and last control the run as documented."""
from checks import runfam, mcrun, repotraces

PID = "C13"
JUDGED = {"stopped", "advance", "extra_event", "missing_event", "returned", "final_returned", "votes",
          "printed", "final_printed", "vars", "final_vars", "k", "raised", "scan_count", "match_count"}


def lookahead_probe(rep):
    """C13's statement (no later component runs after skip() fires) is broken through the onmatch look-ahead: listed finding."""
    import os
    from lib import runner, scratch

    scratch.enter_scratch()
    path = os.path.join(scratch.scratch_dir(), "la.csv")
    runner.write_csv(path, [["a", "b"], ["1", "x"], ["7", "y"], ["2", "z"]])
    out = runner.run_standalone(f'${path}[1*][ @c.onmatch = count() skip(#0 == 7) push("s", #1) ]', events=[])
    p = out["csvpath"]
    pushed = list(p.variables.get("s", []))
    if out["raised"] or pushed != ["x", "z"] or p.match_count != 2:
        rep.violation({"kind": "lookahead-ignores-skip", "csvpath": '$la.csv[1*][ @c.onmatch = count() skip(#0 == 7) push("s", #1) ]',
                       "expected": {"s": ["x", "z"], "match_count": 2}, "got": {"s": pushed, "match_count": p.match_count, "raised": out["raised"]}},
                      finding="C13-lookahead-ignores-skip-and-stop")


def main(tier):
    n = 700 if tier == "quick" else 12000
    return runfam.run(PID, tier, groups=("core", "control"), judged=JUDGED, ncases=n, seed_salt=1300, pre=lambda rep: (lookahead_probe(rep), mcrun.run_pool(rep, tier, {"returned", "unmatched", "vars", "printed", "matchCount", "scanCount"}, PID), repotraces.run(rep, tier, JUDGED, PID)))


def replay(path):
    return runfam.replay(path, PID)
