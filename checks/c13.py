"""C13 — stop, skip, advance and last control the run as documented."""
from checks import runfam, mcrun

PID = "C13"
JUDGED = {"stopped", "advance", "extra_event", "missing_event", "returned", "final_returned", "votes",
          "printed", "final_printed", "vars", "final_vars", "k", "raised", "scan_count", "match_count"}


def main(tier):
    n = 700 if tier == "quick" else 12000
    return runfam.run(PID, tier, groups=("core", "control"), judged=JUDGED, ncases=n, seed_salt=1300, pre=lambda rep: mcrun.run_pool(rep, tier, {"returned", "unmatched", "vars", "printed", "matchCount", "scanCount"}, PID))


def replay(path):
    return runfam.replay(path, PID)
