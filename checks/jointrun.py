"""Joint runs of named-paths groups with cross-path signals, validated by spec/GroupRun.tla.

A generated group (typed members over one shared file, some of whose stop/skip/advance/fail actions are the cross-path
variants stop_all/skip_all/advance_all/fail_all) is run for real with one of the six CsvPaths methods; the global sequence of
_consider_line calls, every member's final state, the lines handed to the caller and the run manifest's all_valid are
validated by the deterministic joint machine."""
import json
import os
import random

from lib import common, gen, grouprun, lang as L, pharness, runtrace, scratch
from lib.runner import OutOfModel
from lib.tlc import run_tlc, require_ok, MachineryError

SERIAL = ["collect_paths", "fast_forward_paths", "next_paths"]
BYLINE = ["collect_by_line", "fast_forward_by_line", "next_by_line"]
REN = {"stop": "stop_all", "skip": "skip_all", "advance": "advance_all", "fail": "fail_all"}


def has_lookahead(prog):
    for c in prog["comps"]:
        for n in L.walk(c):
            if "onmatch" in n["quals"] or (n["k"] == "fn" and n["name"] == "firstmatch"):
                return True
            if n["k"] == "assign" and n["args"][1]["k"] == "fn" and n["args"][1]["name"] in ("count", "has_matches") and not n["args"][1]["args"]:
                return True
    return False


def signalise(rng, prog, p=0.6):
    """argument-less stop()/skip() actions, advance(n) and fail() become their cross-path variants"""
    n = 0
    for c in prog["comps"]:
        for node in L.walk(c):
            if node["k"] == "fn" and node["name"] in REN and rng.random() < p:
                if node["name"] in ("stop", "skip") and node["args"]:
                    continue        # stop_all(cond)/skip_all(cond) signal whether or not cond holds (IMPL): not generated
                node["name"] = REN[node["name"]]
                n += 1
    return n


def _work(args):
    seed, idx = args
    rng = random.Random(seed * 7919 + idx)
    scratch.scratch_dir() or scratch.enter_scratch()
    grp = gen.make_group(rng, idx, groups=("core", "control", "validity"), max_rows=7, modes=rng.random() < 0.3)
    nsig = 0
    # a direct signal on a chosen record: '<line_number() == n> -> x_all()' at a random position of a random member
    for _ in range(rng.choice([0, 1, 1, 2])):
        mc = rng.choice(grp["members"])
        comps = mc["prog"]["comps"]
        sig = rng.choice([L.fn("fail_all"), L.fn("fail_all"), L.fn("stop_all"), L.fn("skip_all"), L.fn("advance_all", L.term(rng.choice([1, 2])))])
        if has_lookahead(mc["prog"]) and sig["name"] in ("stop_all", "skip_all"):
            sig = L.fn("fail_all")      # a look-ahead ignores a firing skip/stop (C13's listed finding): not generated
        cond = L.eq(L.fn("line_number"), L.term(rng.randint(0, max(1, len(grp["records"]) - 1))))
        pos = rng.randint(0, len(comps))
        if comps and comps[-1]["k"] == "when" and comps[-1]["args"][0]["name"] == "last":
            pos = min(pos, len(comps) - 1)          # a 'last() ->' component stays last
        comps.insert(pos, L.when(cond, sig))
        nsig += 1
    # an error-provoking component in a member (the configuration's policy for csvpaths is 'collect, print': the line does not match,
    # a record is collected, the run goes on) - the joint machine handles it through Eval!Flush like a standalone run
    if rng.random() < 0.3:
        mc = rng.choice(grp["members"])
        if mc["cfg"]["AND"] and not has_lookahead(mc["prog"]):
            comps = mc["prog"]["comps"]
            pos = rng.randint(0, len(comps))
            if comps and comps[-1]["k"] == "when" and comps[-1]["args"][0]["name"] == "last":
                pos = min(pos, len(comps) - 1)
            ncols = max(len(r) for r in grp["records"]) if grp["records"] else 1
            comps.insert(pos, L.err(L.hdr(rng.randint(0, max(0, ncols)))))
    for mc in grp["members"]:
        # look-ahead with control functions is a listed finding of C13; signals are only interesting in AND/OR without it
        nsig += signalise(rng, mc["prog"])
        mc["prog"]["initVars"] = L.init_vars(mc["prog"])
    method = rng.choice(SERIAL + BYLINE)
    all_agree = rng.random() < 0.4
    # collect_when_not_matched=True (line-major methods): every member returns the lines it does NOT match, as return-mode: no-matches does
    cwnm = method in BYLINE and rng.random() < 0.25
    if cwnm:
        for mc in grp["members"]:
            mc["cfg"] = dict(mc["cfg"], noMatches=False)      # the parameter decides; no return-mode comment on the member
    texts = [grouprun.member_text(mc, ident=f"m{i}") for i, mc in enumerate(grp["members"])]
    info = {"texts": texts, "records": grp["records"], "method": method, "if_all_agree": all_agree, "collect_when_not_matched": cwnm, "signals": nsig}
    rec = grouprun.Recorder()
    raised = None
    got = None
    with scratch.silence():
        cp = grouprun.setup_project(f"joint{idx}", grp["records"], {"g": texts})
        try:
            rec.install()
            try:
                kw = {"if_all_agree": all_agree, "collect_when_not_matched": cwnm} if method in BYLINE else {}
                got = pharness.run_method(cp, method, "g", "data", **kw)
            except Exception as e:
                import traceback

                raised = f"{type(e).__name__}: {e}"[:300] + traceback.format_exc()[-400:]
        finally:
            rec.uninstall()
    if raised:
        return {"raised": raised, "info": info}
    try:
        events = []
        ptr = [0] * len(rec.members)
        for (mi, k, ret) in rec.schedule:
            e = rec.members[mi]["events"][ptr[mi]]
            ptr[mi] += 1
            ev = runtrace._enc_event(e)
            ev["m"] = mi + 1
            events.append(ev)
        members = []
        for mc in grp["members"]:
            cfg = dict(mc["cfg"])
            cfg["collecting"] = method in ("collect_paths", "collect_by_line", "next_paths", "next_by_line")
            cfg["nexts"] = 0
            cfg["noMatches"] = bool(cfg["noMatches"] or cwnm)
            cfg.setdefault("noDefaultPrint", False)
            members.append({"prog": runtrace.strip_private(mc["prog"]), "cfg": cfg})
        fin = []
        for m in rec.members:
            p = m["p"]
            fin.append({"valid": bool(p.is_valid), "stopped": bool(p.stopped), "match_count": p.match_count, "scan_count": p.scan_count,
                        "vars": runtrace._norm_vars(p.variables)})
        while len(fin) < len(members):
            fin.append({"valid": True, "stopped": False, "match_count": 0, "scan_count": 0, "vars": []})
        yielded = []
        if method in ("collect_by_line", "next_by_line") and got is not None:
            for ln in got:
                hit = rec.line_objs.get(id(ln))
                yielded.append(hit[0] if hit else -1)
        archive = cp.config.archive_path
        rds = pharness.run_dirs(archive, "g")
        man = pharness.read_json(os.path.join(archive, "g", rds[-1], "manifest.json")) if rds else {}
        case = {"tid": idx, "kind": "serial" if method in SERIAL else "byline", "allAgree": bool(all_agree), "coordinated": method != "collect_paths" and method != "fast_forward_paths", "file": L.enc_file(grp["records"]),
                "members": members, "events": events,
                "final": {"started": len(rec.members), "members": fin, "yielded": yielded, "checkYield": method in ("collect_by_line", "next_by_line"),
                          "all_valid": bool(man.get("all_valid"))}}
    except OutOfModel:
        return {"oom": True}
    return {"case": case, "info": info}


def validate(cases, dev=()):
    base = scratch._base()
    path = os.path.join(base, f"joint-{os.getpid()}-{len(dev)}.ndjson")
    with open(path, "w") as f:
        for c in cases:
            f.write(json.dumps(c, separators=(",", ":")) + "\n")
    devs = "{" + ", ".join(f'"{d}"' for d in sorted(dev)) + "}"
    name = f"_gen_GroupRun_{os.getpid()}_{len(dev)}.cfg"
    with open(os.path.join(common.VERIF, "spec", "GroupRun.cfg")) as f:
        cfg = f.read().replace("CONSTANT Dev = {}", f"CONSTANT Dev = {devs}")
    with open(os.path.join(common.VERIF, "spec", name), "w") as f:
        f.write(cfg)
    try:
        res = require_ok(run_tlc("GroupRun", name, env={"TRACE_FILE": path}, timeout=1800, keep_stdout=False), "GroupRun")
    finally:
        for p in (path, os.path.join(common.VERIF, "spec", name)):
            try:
                os.remove(p)
            except OSError:
                pass
    return res, {v["tid"]: v for v in res.tags.get("V", [])}


def run(rep, tier, judged, pid, n=None):
    n = n or (60 if tier == "quick" else 1500)
    outs = common.pmap(_work, [(common.seed() + 1313, i) for i in range(n)], initializer=scratch.enter_scratch, chunksize=2)
    cases, infos, oom, raised = [], {}, 0, 0
    for o in outs:
        if o.get("oom"):
            oom += 1
        elif "raised" in o:
            raised += 1       # an exception escaping a run is C05/C18's business (policies with 'raise'); none is configured here
            rep.extra.setdefault("joint_runs_that_raised", []).append({"raised": o["raised"][:200], **o["info"]})
        else:
            cases.append(o["case"])
            infos[o["case"]["tid"]] = o["info"]
    if not cases:
        return
    res, verdicts = validate(cases)
    rep.add_tlc("GroupRun: joint machine of concrete members with cross-path signals (serial and line-major)", res)
    if res.invariant_violated:
        rep.violation({"kind": "spec", "invariant": res.invariant_violated})
        return
    rej = [c for c in cases if verdicts.get(c["tid"], {}).get("verdict") != "ok"]
    v2 = {}
    if rej:
        res2, v2 = validate(rej, dev=("AboveCellsAsText", "LtIsLe"))
        rep.add_tlc("GroupRun with the deviations of C01's known findings", res2)
    unjudged = 0
    for c in rej:
        v = v2.get(c["tid"]) or verdicts.get(c["tid"])
        if v is None:
            raise MachineryError("no verdict from GroupRun")
        if v["verdict"] == "ok":
            continue
        field = v["verdict"].split(":")[0]
        if field not in judged:
            unjudged += 1
            rep.extra.setdefault("joint_mismatches_in_unjudged_fields", []).append({"field": field, **infos[c["tid"]]})
            continue
        rep.violation({"kind": "joint-run", "field": v["verdict"], "at_event": v["at"], "expected_by_spec": v.get("expected"), **infos[c["tid"]]})
    rep.traces += len(cases)
    rep.evaluations += len(cases)
    rep.extra.update({"joint_runs": len(cases), "joint_runs_with_signals": sum(1 for c in cases if infos[c["tid"]]["signals"] > 0),
                      "joint_out_of_model": oom, "joint_raised": raised, "joint_unjudged": unjudged})
    for c in cases:
        if infos[c["tid"]]["signals"] > 0:
            rep.nontrivial_case("joint" + json.dumps(infos[c["tid"]], sort_keys=True, default=str)[:1500])
