"""C10 — every run gets its own run directory and never touches an earlier run's results.

Spec: spec/RunDirs.tla (clock, runs with collision index, :last/:first resolution with ties of the
same second left open). TLC checks FreshDir, DenseIdx, Chronological, LastIsNewest, EarlierUntouched
over all sequences of runs {2 groups} x {new, reused instance} x {methods} x {clock moves}; every
history is replayed with a fake clock into real CsvPaths instances: after each run the archive
tree is projected (new directory = the one the spec names, every file of every earlier run
byte-identical) and $g.results.<prefix>:last/:first references are resolved."""
import gc
import json
import os

from lib import common, scratch, runner, pharness
from lib.tlc import run_tlc, require_ok, MachineryError

PID = "C10"
INVS = ["FreshDir", "DenseIdx", "Chronological", "LastIsNewest"]
PROPS = ["EarlierUntouched"]
START = 12 * 3600 + 59 * 60 + 55   # 12:59:55 on day 0
DATALESS = ("fast_forward_paths", "fast_forward_by_line")
ABANDON = "!abandon"


def _cfg(methods, maxlen, emit=False, view=False, moves=("same", "plus1", "to13", "midnight")):
    ms = ", ".join(f'"{m}"' for m in methods)
    mv = ", ".join(f'"{m}"' for m in moves)
    s = (f'CONSTANTS\n  Groups = {{"ga", "gb"}}\n  Methods = {{{ms}}}\n  MaxLen = {maxlen}\n  Start = {START}\n  MoveSet = {{{mv}}}\n'
         "INIT Init\nNEXT Next\n")
    s += "".join(f"INVARIANT {i}\n" for i in INVS)
    if emit:
        s += "INVARIANT Emit\n"
    else:
        s += "".join(f"PROPERTY {p}\n" for p in PROPS)
    if view:
        s += "VIEW RunView\n"
    return s + "CHECK_DEADLOCK FALSE\n"


GROUPS = {
    "ga": ['~ id: m1 ~ $[*][ yes() ]', '~ id: m2 ~ $[1*][ @n = count_lines() ]'],
    "gb": ['~ id: m1 ~ $[*][ #0 ]'],
}


def _dirname(run):
    s = pharness.FakeClock.stamp(run["t"])
    return s if run["idx"] == 0 else f"{s}.{run['idx'] - 1}"


def _prefix(p, t):
    s = pharness.FakeClock.stamp(t)
    return {"any": "", "day": s[:10], "hour": s[:13]}[p]


def _replay(hist):
    scratch.fresh_subdir("rd")
    os.makedirs("src", exist_ok=True)
    runner.write_csv("src/data.csv", [["a", "b"], ["1", "2"], ["3", "4"]])
    clock = pharness.FakeClock()
    clock.install()
    try:
        with scratch.silence():
            setup = pharness.new_csvpaths()
            setup.file_manager.add_named_file(name="data", path="src/data.csv")
            for g, ps in GROUPS.items():
                setup.paths_manager.add_named_paths(name=g, paths=ps)
            shared = None
            earlier = {}   # (g, dirname) -> tree hashes
            abandoned = set()
            done = []
            for i, step in enumerate(hist):
                clock.t = step["run"]["t"]
                if step["inst"] == "new":
                    cp = pharness.new_csvpaths()
                else:
                    if shared is None:
                        shared = pharness.new_csvpaths()
                    cp = shared
                g = step["g"]
                ops = [{k: s[k] for k in ("mv", "inst", "g", "m")} for s in hist[: i + 1]]
                try:
                    if step["m"].endswith(ABANDON):
                        # the caller takes the first line of a next_* run and walks away: the run never reaches its end
                        it = getattr(cp, step["m"][: -len(ABANDON)])(pathsname=g, filename="data", collect=True)
                        next(it, None)
                        it.close()
                        del it
                        gc.collect()
                    else:
                        pharness.run_method(cp, step["m"], g, "data")
                except Exception as e:
                    import traceback

                    return {"kind": "rundirs", "step": i, "ops": ops, "raised": f"{type(e).__name__}: {e}", "trace": traceback.format_exc()[-600:]}
                done.append(step["run"])
                archive = cp.config.archive_path
                # (1) the directories that exist are exactly the ones the spec names
                for gg in GROUPS:
                    exp = sorted(_dirname(r) for r in done if r["g"] == gg)
                    got = pharness.run_dirs(archive, gg)
                    if got != exp:
                        return {"kind": "rundirs", "step": i, "ops": ops, "what": f"run directories of {gg}", "expected": exp, "got": got}
                # (2) every file of every earlier run is byte-identical
                for (gg, dn), hashes in earlier.items():
                    now = pharness.tree_hashes(os.path.join(archive, gg, dn))
                    if (gg, dn) in abandoned:
                        # the line files of an abandoned run are still open in the instance that holds its results: when they are
                        # flushed is that run's own business; every other file of it must stay as it was
                        now = {k: v for k, v in now.items() if os.path.basename(k) not in ("data.csv", "unmatched.csv")}
                        hashes = {k: v for k, v in hashes.items() if os.path.basename(k) not in ("data.csv", "unmatched.csv")}
                    if now != hashes:
                        changed = sorted(set(k for k in set(now) | set(hashes) if now.get(k) != hashes.get(k)))
                        return {"kind": "rundirs", "step": i, "ops": ops, "what": f"earlier run {gg}/{dn} was modified", "files": changed}
                dn = _dirname(step["run"])
                earlier[(g, dn)] = pharness.tree_hashes(os.path.join(archive, g, dn))
                if step["m"].endswith(ABANDON):
                    abandoned.add((g, dn))
                # (3) :last / :first resolution
                for gg in GROUPS:
                    if not any(r["g"] == gg for r in done):
                        continue
                    for p in ("any", "day", "hour"):
                        for which in ("last", "first"):
                            idxs = step[which][gg][p]
                            if not idxs:
                                continue
                            admissible = sorted(_dirname(done[j - 1]) for j in idxs)
                            # a run made by a fast-forward method collects no lines: it has a run directory like any other (and is the
                            # most recent run while it is), but no data.csv a reference could be resolved to
                            with_data = sorted(_dirname(done[j - 1]) for j in idxs if hist[j - 1]["m"] not in DATALESS)
                            # an abandoned run may or may not have collected a line before the caller left
                            sure = [d for j, d in ((j, _dirname(done[j - 1])) for j in idxs) if hist[j - 1]["m"] not in DATALESS and not hist[j - 1]["m"].endswith(ABANDON)]
                            ref = f"${gg}.results.{_prefix(p, step['run']['t'])}:{which}.m1"
                            # whoever asks gets the same answer: the instance that just ran, the long-lived instance that ran
                            # earlier (if any), and an instance that never runs anything
                            askers = [("the instance that ran", cp)] + ([("an instance that ran earlier", shared)] if (shared is not None and shared is not cp) else []) \
                                + [("an instance that never ran", setup)]
                            for who, asker in askers:
                                try:
                                    path = asker.file_manager.get_named_file(ref)
                                except Exception as e:
                                    if len(sure) < len(admissible):
                                        continue      # the most recent (earliest) run has no data to resolve to: the reference fails rather than answer with another run
                                    return {"kind": "rundirs", "step": i, "ops": ops, "what": f"reference {ref} raised (asked by {who})", "raised": f"{type(e).__name__}: {e}", "admissible": admissible}
                                parts = path.split(os.sep)
                                got = parts[-3]
                                if got not in with_data or parts[-4] != gg or parts[-1] != "data.csv" or parts[-2] != "m1":
                                    return {"kind": "rundirs", "step": i, "ops": ops, "what": f"reference {ref} asked by {who}", "admissible": admissible, "got": path}
    finally:
        clock.uninstall()
    return None


def inductive(rep):
    """Unbounded-in-steps argument with Apalache (spec/RunDirsInd.tla): FreshDir /\ DenseIdx /\ Chronological (with the clock bound) is an
    inductive invariant of the run-directory design for ANY non-decreasing clock and run lists of up to 6 entries; a copy whose
    collision index saturates must fail the inductive step (negative control)."""
    from lib import apalache

    mod = os.path.join(common.VERIF, "spec", "RunDirsInd.tla")
    base = apalache.check(mod, init="Init", inv="IndInv", length=6, cinit="CInit")
    step = apalache.check(mod, init="IndInit", inv="IndInv", length=1, cinit="CInit")
    bad = os.path.join(common.VERIF, "spec", "_gen_RunDirsBad.tla")
    with open(mod) as f:
        text = f.read()
    text = text.replace("MODULE RunDirsInd", "MODULE _gen_RunDirsBad").replace(
        "idx |-> CountSame(runs, g, t)]", "idx |-> IF CountSame(runs, g, t) > 1 THEN 1 ELSE CountSame(runs, g, t)]")
    with open(bad, "w") as f:
        f.write(text)
    try:
        neg = apalache.check(bad, init="IndInit", inv="IndInv", length=1, cinit="CInit")
    finally:
        os.remove(bad)
    rep.extra["apalache_inductive_invariant"] = {"base_case": base["outcome"], "inductive_step": step["outcome"],
                                                 "negative_control_step": neg["outcome"], "wall_s": base["wall_s"] + step["wall_s"] + neg["wall_s"]}
    if neg["outcome"] == "NoError":
        raise MachineryError("the negative control of RunDirsInd passed the inductive step: the argument is vacuous")
    if base["outcome"] != "NoError" or step["outcome"] != "NoError":
        rep.violation({"kind": "spec", "invariant": "IndInv (Apalache)", "base": base, "step": step})


def main(tier):
    rep = common.Report(PID, tier)
    spec = os.path.join(common.VERIF, "spec")
    all_methods = pharness.METHODS
    two = ["collect_paths", "collect_by_line"]
    deep_len, emit_len, sim = (4, 2, (6, 4)) if tier == "quick" else (5, 3, (60, 6))
    with open(os.path.join(spec, "_gen_RD_deep.cfg"), "w") as f:
        f.write(_cfg(all_methods, deep_len, view=True))
    r1 = require_ok(run_tlc("RunDirs", "_gen_RD_deep.cfg", timeout=1500, keep_stdout=False), "RunDirs deep")
    rep.add_tlc(f"RunDirs all sequences <= {deep_len} of runs (2 groups x new/reused x 6 methods x 4 clock moves), history hidden", r1)
    if r1.invariant_violated:
        rep.violation({"kind": "spec", "invariant": r1.invariant_violated, "tail": r1.stdout[-1500:]})
        return rep.finish()
    if tier != "quick":
        inductive(rep)
    hists = []
    for L in range(1, emit_len + 1):
        with open(os.path.join(spec, "_gen_RD_emit.cfg"), "w") as f:
            f.write(_cfg(two, L, emit=True))
        r2 = require_ok(run_tlc("RunDirs", "_gen_RD_emit.cfg", timeout=1500, keep_stdout=False), "RunDirs emit")
        rep.add_tlc(f"RunDirs all histories of length {L} (two representative methods)", r2)
        hists += list(r2.records)
    # same-second pile-ups: every history of length 3/4 with one method and the moves {same second, +1s}
    fl = 3 if tier == "quick" else 4
    with open(os.path.join(spec, "_gen_RD_focus.cfg"), "w") as f:
        f.write(_cfg(["collect_paths"], fl, emit=True, moves=("same", "plus1")))
    r4 = require_ok(run_tlc("RunDirs", "_gen_RD_focus.cfg", timeout=900, keep_stdout=False), "RunDirs focus")
    rep.add_tlc(f"RunDirs all histories of length {fl} with moves {{same second, +1s}} (collision suffixes)", r4)
    hists += list(r4.records)
    # runs that leave no data among runs that do: ':last' / ':first' still mean the most recent / earliest RUN
    with open(os.path.join(spec, "_gen_RD_nodata.cfg"), "w") as f:
        f.write(_cfg(["collect_paths", "fast_forward_paths"] + ([] if tier == "quick" else ["fast_forward_by_line"]), 3, emit=True, moves=("plus1",)))
    r5 = require_ok(run_tlc("RunDirs", "_gen_RD_nodata.cfg", timeout=900, keep_stdout=False), "RunDirs nodata")
    rep.add_tlc("RunDirs all histories of length 3 of collecting and fast-forward runs, one second apart (references over runs without data)", r5)
    hists += list(r5.records)
    # runs that never reach their end (the caller abandons a next_* generator after its first line) among complete runs: the
    # next run, on the same or another instance, still gets its own directory under its own group
    fams = [(["collect_paths", "next_paths" + ABANDON], ("plus1",))] if tier == "quick" else \
        [(["collect_paths", "next_paths" + ABANDON], ("same", "plus1")), (["collect_paths", "next_by_line" + ABANDON], ("plus1",))]
    for ms, mvs in fams:
        with open(os.path.join(spec, "_gen_RD_abandon.cfg"), "w") as f:
            f.write(_cfg(ms, 3, emit=True, moves=mvs))
        r6 = require_ok(run_tlc("RunDirs", "_gen_RD_abandon.cfg", timeout=900, keep_stdout=False), "RunDirs abandon")
        rep.add_tlc(f"RunDirs all histories of length 3 of complete and abandoned runs ({ms[1]}; clock moves {', '.join(mvs)})", r6)
        hists += list(r6.records)
    with open(os.path.join(spec, "_gen_RD_sim.cfg"), "w") as f:
        f.write(_cfg(["collect_paths", "collect_by_line", "next_paths", "next_by_line"], sim[1], emit=True))
    r3 = require_ok(run_tlc("RunDirs", "_gen_RD_sim.cfg", timeout=600, keep_stdout=False, workers=1,
                            simulate=f"num={sim[0]}", depth=sim[1] + 1, seed=common.seed() + 10), "RunDirs simulate")
    rep.add_tlc(f"RunDirs -simulate num={sim[0]} depth={sim[1]}", r3)
    hists += list(r3.records)
    if not hists:
        raise MachineryError("no histories emitted")
    bad = common.pmap(_replay, hists, initializer=scratch.enter_scratch, chunksize=4)
    rep.traces = len(hists)
    rep.evaluations = sum(len(h) for h in hists)
    for h in hists:
        rep.nontrivial_case(tuple((s["mv"], s["inst"], s["g"], s["m"]) for s in h))
    for h in hists[:: max(1, len(hists) // 3)][:3]:
        rep.sample([{k: s[k] for k in ("mv", "inst", "g", "m")} | {"dir": _dirname(s["run"])} for s in h])
    for d in bad:
        if d is not None:
            rep.violation(d)
    rep.extra["histories_replayed"] = len(hists)
    rep.extra["exhaustive_history_length_replayed"] = emit_len
    rep.rule = (f"histories of runs drawn from 2 groups x {{new, reused instance}} x methods x clock moves {{same second, +1s, across "
                f"12:59->13:00, across midnight}} starting at 12:59:55: TLC explores all sequences <= {deep_len} with all six methods on the "
                f"spec; all histories of length <= {emit_len} (two representative methods) and random histories of length {sim[1]} are replayed "
                "with a fake clock. every history is non-trivial (>= 1 run).")
    rep.assumptions = ["TLC; csvpath.csvpaths.datetime replaced by a fake clock", "same-second ties of :last/:first left open",
                       "a reference whose most recent (earliest) run was a fast-forward run may raise; it may not answer with another run"]
    return rep.finish()


def replay(path):
    with open(path) as f:
        print(f.read()[:4000])
    return 0
