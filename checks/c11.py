"""C11 — the named-files area is a versioned, content-addressed, immutable store.

Spec: spec/NamedFiles.tla. TLC: (1) exhaustive over the abstract store for all operation sequences
up to length 6 (history hidden by a VIEW), checking CurrentOnDisk, ManifestMatchesDisk,
NoRepeatEntries and the action properties VersionsImmutable, ManifestAppendOnly,
SourceEditsInvisible; (2) every history up to a length is emitted and replayed, step by step, into
a real FileManager, comparing after each operation get_named_file / the manifest / the stored
files with the specification's state; (3) longer random histories from tlc -simulate."""
import hashlib
import json
import os
import time
import shutil

from lib import common, scratch
from lib.tlc import run_tlc, require_ok, MachineryError

PID = "C11"
INVS = ["CurrentOnDisk", "ManifestMatchesDisk", "NoRepeatEntries"]
PROPS = ["VersionsImmutable", "ManifestAppendOnly", "SourceEditsInvisible"]
BYTES = {1: b"a,b\n1,2\n", 2: b"a,b\n3,4\n5,6\n", 3: b"x;y\n\xff\xfe,\"q\"\n"}
FP = {c: hashlib.sha256(b).hexdigest() for c, b in BYTES.items()}


def _cfg(maxlen, view=False, emit=False, race=False):
    s = 'CONSTANTS\n  Names = {"na", "nb"}\n  Srcs = {"s1.csv", "s2.csv"}\n  Contents = {1, 2, 3}\n'
    s += f"  Race = {'TRUE' if race else 'FALSE'}\n"
    s += f"  MaxLen = {maxlen}\nINIT Init\nNEXT Next\n"
    s += "".join(f"INVARIANT {i}\n" for i in INVS)
    if emit:
        s += "INVARIANT Emit\n"
    else:
        s += "".join(f"PROPERTY {p}\n" for p in PROPS)
    if view:
        s += "VIEW StoreView\n"
    s += "CHECK_DEADLOCK FALSE\n"
    return s


def _observe(cp, names):
    fm = cp.file_manager
    obs = {}
    base = fm.named_files_dir
    for n in names:
        home = os.path.join(base, n)
        if not os.path.isdir(home):
            obs[n] = {"cur": None, "man": [], "disk": []}
            continue
        path = fm.get_named_file(n)
        cur = None
        if path is not None:
            with open(path, "rb") as f:
                data = f.read()
            srcname = os.path.basename(os.path.dirname(path))
            cur = {"file": srcname, "fp": hashlib.sha256(data).hexdigest(), "basename": os.path.basename(path),
                   "api_fp": fm.get_fingerprint_for_name(n)}
        mpath = os.path.join(home, "manifest.json")
        man = []
        if os.path.exists(mpath):
            with open(mpath) as f:
                for e in json.load(f):
                    man.append({"file": os.path.basename(e["file_home"]), "fp": e["fingerprint"]})
        disk = []
        for root, _, files in os.walk(home):
            for fn in files:
                if fn == "manifest.json":
                    continue
                with open(os.path.join(root, fn), "rb") as f:
                    h = hashlib.sha256(f.read()).hexdigest()
                disk.append({"file": os.path.basename(root), "fp": h, "basename": fn})
        obs[n] = {"cur": cur, "man": man, "disk": sorted(disk, key=lambda d: (d["file"], d["fp"]))}
    return obs


def _expected(obs):
    out = {}
    for n, o in obs.items():
        cur = None
        if o["cur"]["file"] != "none":
            fp = FP[o["cur"]["fp"]]
            cur = {"file": o["cur"]["file"], "fp": fp, "basename": fp + ".csv", "api_fp": fp}
        man = [{"file": e["file"], "fp": FP[e["fp"]]} for e in o["man"]]
        disk = sorted(({"file": e["file"], "fp": FP[e["fp"]], "basename": FP[e["fp"]] + ".csv"} for e in o["disk"]),
                      key=lambda d: (d["file"], d["fp"]))
        out[n] = {"cur": cur, "man": man, "disk": disk}
    return out


def _replay(hist):
    from csvpath import CsvPaths

    d = scratch.fresh_subdir("nf")
    os.makedirs("src", exist_ok=True)
    with scratch.silence():
        cp = CsvPaths()
        names = sorted(hist[0]["obs"].keys()) if hist else []
        for i, step in enumerate(hist):
            op = step["op"]
            try:
                if op["k"] == "add":
                    with open(os.path.join("src", op["s"]), "wb") as f:
                        f.write(BYTES[op["c"]])
                    # the three registration routes end in the same Add action of NamedFiles.tla
                    route = ("direct", "direct", "dict", "json")[(i + len(hist) + len(op["s"])) % 4]
                    spath = os.path.join("src", op["s"])
                    if (i + len(hist)) % 2 == 0:
                        # what a source file holds is its bytes, whatever its timestamp says (a restored backup, cp -p, rsync -t)
                        old = time.time() - 86400
                        os.utime(spath, (old, old))
                    if route == "direct":
                        cp.file_manager.add_named_file(name=op["n"], path=spath)
                    elif route == "dict":
                        cp.file_manager.set_named_files({op["n"]: spath})
                    else:
                        with open(os.path.join("src", "files.json"), "w", encoding="utf-8") as jf:
                            json.dump({op["n"]: spath}, jf)
                        cp.file_manager.set_named_files_from_json(os.path.join("src", "files.json"))
                elif op["k"] == "addrace":
                    # a producer writes op["c2"] to the source while add_named_file is at work: just before the registration's copy of
                    # the source (early) or just after it (late). The write is injected around shutil.copy, the one read of the source.
                    import shutil

                    spath = os.path.join("src", op["s"])
                    with open(spath, "wb") as f:
                        f.write(BYTES[op["c"]])
                    real_copy = shutil.copy
                    fired = []

                    def racing_copy(a, b, *x, **kw):
                        mine = os.path.abspath(str(a)) == os.path.abspath(spath) and not fired
                        if mine and op["early"]:
                            fired.append(1)
                            with open(spath, "wb") as f2:
                                f2.write(BYTES[op["c2"]])
                        r_ = real_copy(a, b, *x, **kw)
                        if mine and not op["early"]:
                            fired.append(1)
                            with open(spath, "wb") as f2:
                                f2.write(BYTES[op["c2"]])
                        return r_

                    shutil.copy = racing_copy
                    try:
                        cp.file_manager.add_named_file(name=op["n"], path=spath)
                    finally:
                        shutil.copy = real_copy
                    if not fired:
                        return None       # the registration did not read the source through shutil.copy: the interleaving cannot be staged
                elif op["k"] == "mutate":
                    with open(os.path.join("src", op["s"]), "wb") as f:
                        f.write(BYTES[op["c"]])
                elif op["k"] == "remove":
                    cp.file_manager.remove_named_file(op["n"])
                elif op["k"] == "new":
                    cp = CsvPaths()
                got = _observe(cp, names)
                present = sorted(cp.file_manager.named_file_names)
            except Exception as e:
                import traceback

                return {"kind": "namedfiles", "step": i, "ops": [s["op"] for s in hist[: i + 1]],
                        "raised": f"{type(e).__name__}: {e}", "trace": traceback.format_exc()[-600:]}
            exp = _expected(step["obs"])
            exp_present = sorted(n for n in names if exp[n]["cur"] is not None)
            if got != exp or present != exp_present:
                return {"kind": "namedfiles", "step": i, "ops": [s["op"] for s in hist[: i + 1]], "expected": exp,
                        "got": got, "names_expected": exp_present, "names_got": present}
    return None


def main(tier):
    rep = common.Report(PID, tier)
    spec = os.path.join(common.VERIF, "spec")
    deep, emit_len, sim = (5, 2, (150, 8)) if tier == "quick" else (6, 3, (3000, 12))
    # (1) deep exhaustive on the abstract store
    with open(os.path.join(spec, "_gen_NF_deep.cfg"), "w") as f:
        f.write(_cfg(deep, view=True))
    r1 = require_ok(run_tlc("NamedFiles", "_gen_NF_deep.cfg", timeout=1500, keep_stdout=False), "NamedFiles deep")
    rep.add_tlc(f"NamedFiles exhaustive on the abstract store, sequences <= {deep} (VIEW hides the history)", r1)
    if r1.invariant_violated:
        rep.violation({"kind": "spec", "invariant": r1.invariant_violated, "tail": r1.stdout[-1500:]})
        return rep.finish()
    # (2) all histories of length emit_len
    with open(os.path.join(spec, "_gen_NF_emit.cfg"), "w") as f:
        f.write(_cfg(emit_len, emit=True))
    r2 = require_ok(run_tlc("NamedFiles", "_gen_NF_emit.cfg", timeout=1500, keep_stdout=False), "NamedFiles emit")
    rep.add_tlc(f"NamedFiles all histories of length {emit_len}", r2)
    hists = list(r2.records)
    # (3) random longer histories
    with open(os.path.join(spec, "_gen_NF_sim.cfg"), "w") as f:
        f.write(_cfg(sim[1], emit=True))
    r3 = require_ok(run_tlc("NamedFiles", "_gen_NF_sim.cfg", timeout=600, keep_stdout=False, workers=1,
                            simulate=f"num={sim[0]}", depth=sim[1] + 1, seed=common.seed() + 11), "NamedFiles simulate")
    rep.add_tlc(f"NamedFiles -simulate num={sim[0]} depth={sim[1]}", r3)
    hists += list(r3.records)
    # (4) a producer still writing the source while it is registered: all histories of length 2 with AddRace
    with open(os.path.join(spec, "_gen_NF_race.cfg"), "w") as f:
        f.write(_cfg(2, emit=True, race=True))
    r4 = require_ok(run_tlc("NamedFiles", "_gen_NF_race.cfg", timeout=1500, keep_stdout=False), "NamedFiles race")
    rep.add_tlc("NamedFiles all histories of length 2 with a racing producer (AddRace)", r4)
    racing = [h for h in r4.records if any(s["op"]["k"] == "addrace" for s in h)]
    if tier == "quick":
        racing = racing[common.seed() % 3 :: 3]
    rep.extra["racing_histories_replayed"] = len(racing)
    hists += racing
    if not hists:
        raise MachineryError("no histories emitted")
    bad = common.pmap(_replay, hists, initializer=scratch.enter_scratch)
    rep.traces = len(hists)
    rep.evaluations = sum(len(h) for h in hists)
    for h in hists:
        ops = tuple((s["op"]["k"], s["op"]["n"], s["op"]["s"], s["op"]["c"]) for s in h)
        if sum(1 for o in ops if o[0] in ("add", "addrace")) >= 1:
            rep.nontrivial_case(ops)
    for h in hists[:: max(1, len(hists) // 3)][:3]:
        rep.sample([s["op"] for s in h])
    for dsc in bad:
        if dsc is not None:
            rep.violation(dsc)
    rep.extra["histories_replayed"] = len(hists)
    rep.extra["exhaustive_history_length_replayed"] = emit_len
    rep.extra["random_history_length"] = sim[1]
    rep.rule = (f"operations add(name in 2, source in 2, content in 3) / mutate source / remove(name) / new instance; TLC explores all "
                f"sequences <= {deep} on the abstract store; all histories of length {emit_len} and {sim[0]} random histories of length "
                f"{sim[1]}, and the histories of length 2 in which a producer writes the source while it is being registered (AddRace; quick: a third of them), are replayed into a real FileManager with the store compared after every operation. non-trivial = contains an add.")
    rep.assumptions = ["TLC; contents are three byte strings (one with non-UTF-8 bytes); sha256 by hashlib",
                       "remove_named_file is only issued for a present name (it raises otherwise)"]
    return rep.finish()


def replay(path):
    with open(path) as f:
        print(f.read()[:4000])
    return 0
