"""C17 — what runs is what was written: parsing is unambiguous and layout-insensitive.

Spec: spec/Syntax.tla — the documented match grammar as a generator of component trees with their
token sequences. TLC enumerates every tree up to a nesting depth over a lexicon that contains every
token kind (plain/quoted/indexed/qualified headers, variables with tracking and keyword qualifiers,
string / signed / decimal / regex terms, functions of arity 0-3 with qualifiers, ==, =, ->); two
different trees with the same token sequence would be an ambiguity of the documented grammar
(checked on the emitted set). Binding (A): every tree is written out and parsed by the real
LarkParser/LarkTransformer (CsvPath.parse(..., disposably=True)): no _ambig node may occur, and the
projected component tree must equal the tree TLC emitted (kinds, names, qualifiers, operators,
argument order, literal values). Layouts: sequences of trees are written with different whitespace,
newlines and ~comments~ between components and with an outer comment without mode settings; all
layouts must project to the same trees, and for runnable generated programs the traces of
different layouts must be one run, call by call and in the final state (spec/SameRun.tla). A second generator covers every
function name registered in the factory, with an arity found by structural validation."""
import json
import os
import random
import re

from lib import common, gen, lang, runtrace, scratch
from lib.tlc import run_tlc, require_ok, MachineryError

PID = "C17"


# ---- projection of the implementation's tree ---------------------------------------------------------
def project(m):
    from csvpath.matching.productions import Equality, Variable, Term, Header, Reference, Expression
    from csvpath.matching.functions.function import Function

    if isinstance(m, Expression):
        return project(m.children[0])
    if isinstance(m, Equality):
        if m.op == "->":
            return {"k": "when", "tok": "->", "args": [project(m.left), project(m.right)]}
        if m.op == "==":
            return {"k": "eq", "tok": "==", "args": [project(m.left), project(m.right)]}
        if m.op == "=":
            return {"k": "assign", "tok": "=", "args": [project(m.left), project(m.right)]}
        return {"k": "list", "tok": m.op, "args": [project(c) for c in m.children]}
    if isinstance(m, Function):
        tok = m.name + "".join("." + q for q in m.qualifiers)
        c = m.children[0] if m.children else None      # the function's one child (public tree structure)
        if c is None:
            args = []
        elif isinstance(c, Equality) and c.op == ",":
            args = [project(x) for x in c.children]
        else:
            args = [project(c)]
        return {"k": "fn", "tok": tok, "args": args}
    if isinstance(m, Header):
        name = m.name
        base = f'#"{name}"' if (" " in f"{name}" or "." in f"{name}") else f"#{name}"
        return {"k": "hdr", "tok": base + "".join("." + q for q in m.qualifiers), "args": []}
    if isinstance(m, Variable):
        return {"k": "var", "tok": "@" + m.name + "".join("." + q for q in m.qualifiers), "args": []}
    if isinstance(m, Reference):
        return {"k": "ref", "tok": "$" + m.qualified_name, "args": []}
    if isinstance(m, Term):
        v = m.value
        if isinstance(v, bool):
            t = repr(v)
        elif isinstance(v, (int, float)):
            t = repr(v)
        elif isinstance(v, str) and len(v) >= 2 and v.startswith("/") and v.endswith("/"):
            t = v
        else:
            t = '"' + f"{v}" + '"'
        return {"k": "term", "tok": t, "args": []}
    return {"k": type(m).__name__, "tok": "?", "args": []}


def norm_expected(n):
    """the tree TLC emitted, with term tokens normalised the way project() writes them"""
    tok = n["tok"]
    if n["k"] == "term" and re.fullmatch(r"-?\d+", tok):
        tok = repr(int(tok))
    elif n["k"] == "term" and re.fullmatch(r"-?\d+\.\d+", tok):
        tok = repr(float(tok))
    return {"k": n["k"], "tok": tok, "args": [norm_expected(a) for a in n["args"]]}


def write(n):
    """one blank between the tokens of a component"""
    k = n["k"]
    if k in ("hdr", "var", "term", "ref"):
        return n["tok"]
    if k == "fn":
        return n["tok"] + "(" + ", ".join(write(a) for a in n["args"]) + ")"
    return f'{write(n["args"][0])} {n["tok"]} {write(n["args"][1])}'


def has_ambig(tree):
    from lark import Tree

    stack = [tree]
    while stack:
        t = stack.pop()
        if isinstance(t, Tree):
            if t.data == "_ambig":
                return True
            stack.extend(t.children)
    return False


def parse_match(text):
    """returns (projected components, ambiguous?, error)"""
    from csvpath import CsvPath
    from csvpath.matching.lark_parser import LarkParser

    try:
        with scratch.silence():
            p = CsvPath()
            m = p.parse(text, disposably=True)
            raw = LarkParser().parse(p.match)        # the match part the implementation itself cut out
    except Exception as e:
        return None, False, f"{type(e).__name__}: {e}"[:300], None
    # reading the tree is the harness's own business: if that fails the harness is broken, not the parser (MachineryError, exit 2)
    try:
        amb = has_ambig(raw)
        comps = [project(e[0]) for e in m.expressions]
    except Exception as e:
        raise MachineryError(f"the projection of the implementation's parse tree failed: {type(e).__name__}: {e}")
    return comps, amb, None, p


SEPS = [" ", "\n", "  ", "\n\t ", " ~ a note ~ ", "\n~ check: later\nsecond line ~\n", "~c~"]


def layout(rng, comps_text, outer=None):
    parts = []
    lead = rng.choice(["", " ", "\n", " ~ first ~ "])
    for i, c in enumerate(comps_text):
        parts.append(c)
        if i < len(comps_text) - 1:
            parts.append(rng.choice(SEPS))
    tail = rng.choice(["", " ", "\n", " ~ last ~ "])
    head = f"~ {outer} ~ " if outer else ""
    return f"{head}$f.csv[*][{lead}{''.join(parts)}{tail}]"


def _check_tree(rec):
    scratch.scratch_dir() or scratch.enter_scratch()
    exp = norm_expected(rec["tree"])
    text = f"$f.csv[*][ {write(rec['tree'])} ]"
    comps, amb, err, _ = parse_match(text)
    if err:
        return {"kind": "syntax", "what": "a tree of the documented grammar does not parse", "csvpath": text, "error": err}
    if amb:
        return {"kind": "syntax", "what": "ambiguous parse (_ambig node)", "csvpath": text}
    if comps != [exp]:
        return {"kind": "syntax", "what": "the component tree differs from the source", "csvpath": text, "expected": [exp], "got": comps}
    return None


def _check_twins(rec):
    """two csvpaths that differ only by white space INSIDE a literal are two csvpaths: parsed one after the other in one process,
    each keeps its own literal (white space between tokens is layout, white space inside a string, a regex or a quoted name is data)"""
    twin = json.loads(json.dumps(rec["tree"]).replace(json.dumps("x \n  y")[1:-1], "x   y").replace(json.dumps("s t")[1:-1], "s\\tt"))
    for t in (rec["tree"], twin, rec["tree"]):
        d = _check_tree({"tree": t})
        if d is not None:
            d["what"] = d["what"] + " (parsed after a csvpath that differs only inside a literal)"
            return d
    return None


def _check_layouts(args):
    seed, idx, trees = args
    scratch.scratch_dir() or scratch.enter_scratch()
    rng = random.Random(seed * 31 + idx)
    texts = [write(t) for t in trees]
    exp = [norm_expected(t) for t in trees]
    for j in range(4):
        outer = rng.choice([None, "a plain note", "description: what this does author: me", "id: x7"])
        text = layout(rng, texts, outer)
        comps, amb, err, p = parse_match(text)
        if err or amb or comps != exp:
            return {"kind": "layout", "what": err or ("ambiguous parse" if amb else "layout changed the tree"), "csvpath": text,
                    "expected": exp, "got": comps}
    return None


# ---- every function name in the factory -----------------------------------------------------------
def factory_names():
    src = open(os.path.join("/repo", "csvpath", "matching", "functions", "function_factory.py")).read()
    names = set(re.findall(r'name == "([a-z_]+)"', src))
    for grp in re.findall(r"name in \[([^\]]+)\]", src, flags=re.S):
        names |= set(re.findall(r'"([a-z_]+)"', grp))
    return sorted(names)


ARG_SHAPES = [[], ["#a"], ['"s"'], ["5"], ["#a", "#b"], ["#a", "5"], ['"s"', "#a"], ['"s"', "5"], ["#a", '"s"'], ["yes()"], ["#a == 5"],
              ["#a", "#b", "#c"], ["#a", "5", "7"], ["@v"], ["@v", "5"], ['"s"', '"t"'], ["#a", "yes()"], ["5", "5"]]


def _arity(name):
    """argument shapes that pass the function's own structural validation"""
    from csvpath import CsvPath

    scratch.scratch_dir() or scratch.enter_scratch()
    ok = []
    for shape in ARG_SHAPES:
        text = f"$f.csv[*][ {name}({', '.join(shape)}) ]"
        try:
            with scratch.silence():
                p = CsvPath()
                p.parse(text, disposably=True)
            if not p.errors:
                ok.append(shape)
        except Exception:
            pass
    return name, ok


def _check_fn(args):
    seed, name, shape = args
    rng = random.Random(f"{seed}{name}{shape}")
    scratch.scratch_dir() or scratch.enter_scratch()
    q = rng.choice(["", "", ".onmatch", ".nm", ".notnone.once"])
    comp = f"{name}{q}({', '.join(shape)})"
    wrap = rng.choice(["{c}", "{c}", "not({c})", "#z -> {c}", "@r = {c}"])
    if name in ("import", "not"):
        wrap = "{c}"
    ctext = wrap.format(c=comp)
    text = f"$f.csv[*][ {ctext} ]"
    comps, amb, err, _ = parse_match(text)
    if err:
        # the wrapped form may be structurally invalid for this function (e.g. a side effect inside not()): not judged
        comps, amb, err, _ = parse_match(f"$f.csv[*][ {comp} ]")
        ctext = comp
        if err:
            return {"kind": "syntax", "what": "a structurally valid call no longer parses with qualifiers", "csvpath": ctext, "error": err}
    if amb:
        return {"kind": "syntax", "what": "ambiguous parse (_ambig node)", "csvpath": ctext}
    # the function node must carry the name, the qualifiers in order and the arguments in order
    want_tok = name + q

    def find(n):
        if n["k"] == "fn" and n["tok"].split(".")[0] == name and (n["tok"] == want_tok or wrap == "{c}" or not wrap.startswith(name)):
            if n["tok"] == want_tok or not any(find(a) for a in n["args"]):
                return n
        for a in n["args"]:
            r = find(a)
            if r:
                return r
        return None
    node = find(comps[0]) if comps else None
    if node is None or node["tok"] != want_tok or len(node["args"]) != len(shape):
        return {"kind": "syntax", "what": "function call projected differently", "csvpath": ctext, "got": comps, "want": want_tok, "nargs": len(shape)}
    got_args = [write(a) for a in node["args"]]
    want_args = [s.replace("5", "5").replace("7", "7") for s in shape]
    if got_args != want_args:
        return {"kind": "syntax", "what": "argument order or literal values changed", "csvpath": ctext, "got": got_args, "want": want_args}
    return None


def main(tier):
    rep = common.Report(PID, tier)
    name = "_gen_MC_Syntax.cfg"
    with open(os.path.join(common.VERIF, "spec", name), "w") as f:
        f.write(f"CONSTANT Depth = 1\nCONSTANT Small = {'TRUE' if tier == 'quick' else 'FALSE'}\nINIT Init\nNEXT Next\nINVARIANT StartsRight\nINVARIANT Emit\nCHECK_DEADLOCK FALSE\n")
    res = require_ok(run_tlc("Syntax", name, timeout=1500, keep_stdout=False), "MC_Syntax")
    rep.add_tlc("Syntax: every component tree of the documented grammar up to nesting depth 1 over the lexicon", res)
    if res.invariant_violated:
        rep.violation({"kind": "spec", "invariant": res.invariant_violated})
        return rep.finish()
    seen = {}
    recs = []
    for r in res.records:
        key = json.dumps(r["tree"], sort_keys=True)
        if key in seen:
            continue
        seen[key] = r
        recs.append(r)
    # an ambiguity of the documented grammar: two trees, one token sequence
    bytoks = {}
    for r in recs:
        bytoks.setdefault(json.dumps(r["toks"]), []).append(r["tree"])
    for toks, trees in bytoks.items():
        if len(trees) > 1:
            rep.violation({"kind": "syntax", "what": "the documented grammar is ambiguous: two trees share one token sequence", "tokens": json.loads(toks), "trees": trees[:2]})
    bad = common.pmap(_check_tree, recs, initializer=scratch.enter_scratch)
    lit = [r for r in recs if '"s t"' in write(r["tree"]) or '"x \n  y"' in write(r["tree"])]
    bad += common.pmap(_check_twins, lit[:: max(1, len(lit) // (400 if tier == "quick" else 5000))], initializer=scratch.enter_scratch)
    # layouts: sequences of 2-4 emitted trees
    rng = random.Random(common.seed() + 17)
    nl = 300 if tier == "quick" else 6000
    seqs = [(common.seed(), i, [rng.choice(recs)["tree"] for _ in range(rng.choice([2, 3, 4]))]) for i in range(nl)]
    bad += common.pmap(_check_layouts, seqs, initializer=scratch.enter_scratch)
    # every function of the factory
    names = factory_names()
    ar = common.pmap(_arity, names, initializer=scratch.enter_scratch, chunksize=2)
    calls = [(common.seed(), n, shape) for n, shapes in ar for shape in shapes]
    no_shape = [n for n, shapes in ar if not shapes]
    bad += common.pmap(_check_fn, calls, initializer=scratch.enter_scratch)
    for d in bad:
        if d is not None:
            rep.violation(d)
    # results of re-laid-out text: runnable generated programs under three layouts, all validated by RunTrace
    nr = 120 if tier == "quick" else 2500
    traces, infos = run_layouts(nr)
    if traces:
        # the same program under three layouts must be ONE run (spec/SameRun.tla); what the run should be is not judged here
        from lib import samerun

        bycase = {}
        for t in traces:
            bycase.setdefault(t["tid"] // 4, []).append(t)
        cases = []
        for cid, ts in bycase.items():
            ts.sort(key=lambda t: t["tid"])
            if len(ts) >= 2:
                cases.append(samerun.case(cid, ts[0], [samerun.other(t, "same", lines=True, unmatched=False) for t in ts[1:]]))
        resv, sv = samerun.validate(cases)
        rep.add_tlc("SameRun: the same generated program under different layouts", resv)
        for c in cases:
            v = sv[c["tid"]]
            if v["verdict"] != "ok":
                ts = bycase[c["tid"]]
                rep.violation({"kind": "layout-run", "field": v["verdict"], "at_call": v.get("expected"),
                               "layout_a": infos[ts[0]["tid"]], "layout_b": infos[ts[min(v["at"], len(ts) - 1)]["tid"]]})
    rep.traces = len(recs) + len(seqs) + len(calls) + len(traces)
    rep.evaluations = rep.traces
    for r in recs:
        rep.nontrivial_case(json.dumps(r["toks"]))
    for r in recs[:: max(1, len(recs) // 3)][:3]:
        rep.sample({"component": write(r["tree"]), "tokens": r["toks"]})
    rep.sample({"layout_example": layout(random.Random(1), [write(recs[0]["tree"]), write(recs[-1]["tree"])], "a plain note")})
    rep.extra.update({"trees": len(recs), "layout_sequences": len(seqs), "factory_functions": len(names),
                      "factory_functions_without_a_valid_probe_shape": no_shape, "function_calls_checked": len(calls),
                      "runnable_programs_in_three_layouts": nr})
    rep.rule = ("TLC-enumerated component trees of the documented grammar (depth 1; " + ("reduced lexicon" if tier == "quick" else "full lexicon")
                + "), each parsed for real; random sequences of trees under 4 layouts each (whitespace, newlines, ~comments~ between components, outer "
                "comments without mode settings); every function name of the factory with every probed argument shape its own validation accepts, "
                "with qualifiers, bare or wrapped; generated runnable programs under three layouts. non-trivial = distinct token sequence.")
    rep.assumptions = ["TLC; Syntax.tla", "tokens inside a component are separated by single blanks (layout is varied between components only, as the statement says)",
                       "argument shapes are probed from a fixed list; a function none of them fits is listed, not judged"]
    return rep.finish()


def run_layouts(n):
    items = [(common.seed(), i) for i in range(n)]
    outs = common.pmap(_layout_run, items, initializer=scratch.enter_scratch)
    traces, infos = [], {}
    for o in outs:
        for t, info in o:
            traces.append(t)
            infos[t["tid"]] = info
    return traces, infos


def _layout_run(args):
    seed, idx = args
    rng = random.Random(seed * 7001 + idx)
    case = gen.make_case(rng, idx, groups=("core", "control", "stateful", "print"))
    # components that keep their state under a generated name ('_intx_<hash of the component>': count(x), counter(), every() ...
    # without a name qualifier, once/onchange markers): the results of a run include those variables, under the same names
    # in every layout
    _unname(case["prog"]["comps"], rng)
    out = []
    orig = lang.render_csvpath
    runtrace.KEEP_INTERNAL = True
    for j, sep in enumerate([" ", "\n   ", " ~ note ~\n"]):
        c = dict(case)
        c["tid"] = idx * 4 + j

        def rc(prog, filename, comment=None, sep_=sep):
            extra = ["", "about: layout test", "a free remark"][j]
            # free text goes before the first field (docs/comments.md: a field's value runs to the next coloned word)
            cm = " ".join(x for x in [extra if j == 2 else None, comment, extra if j == 1 else None] if x) or None
            return orig(prog, filename, comment=cm, sep=sep_)

        lang.render_csvpath = rc
        try:
            rec, info = runtrace.run_case(c, "collect")
        finally:
            lang.render_csvpath = orig
        if rec is not None:
            out.append((rec, {"csvpath": info["csvpath"], "records": info["records"]}))
    runtrace.KEEP_INTERNAL = False
    return out


def _unname(nodes, rng):
    for n in nodes:
        if n["k"] == "fn" and n["name"] in ("count", "counter", "every") and n["args"] and rng.random() < 0.6:
            n["quals"] = [q for q in n["quals"] if q in lang.KEYWORDS]
            n["name_q"] = ""
            n["track"] = lang.NONE
        _unname(n["args"], rng)


def replay(path):
    with open(path) as f:
        print(f.read()[:4000])
    return 0
