"""The closed instance of the run machine (spec/MC_Run.tla): a pool of cases enumerated systematically from component
templates x small files, explored by TLC with every run-machine property as invariant / action property, and every terminal
state replayed into the real CsvPath (direction A). Used by C01, C03, C04, C13 as the exhaustive part next to the random
trace validation."""
import itertools
import json
import os
import random

from lib import common, lang as L, runner, scratch
from lib.runner import OutOfModel
from lib.runtrace import _norm_vars, comment_for, strip_private
from lib.tlc import run_tlc, require_ok, MachineryError

H0, H1, H2 = L.hdr(0), L.hdr(1), L.hdr(2)


def templates():
    def T(*a):
        return a
    b = [
        lambda: L.hdr(0), lambda: L.hdr(1), lambda: L.hdr(2),
        lambda: L.fn("above", L.hdr(0), L.term(1)), lambda: L.fn("below", L.hdr(0), L.term(2)), lambda: L.fn("gte", L.hdr(0), L.term(2)),
        lambda: L.fn("lte", L.fn("add", L.hdr(0), L.term(0)), L.fn("add", L.term(2), L.term(0))),
        lambda: L.eq(L.hdr(0), L.term(2)), lambda: L.eq(L.hdr(1), L.term("a")),
        lambda: L.fn("not", L.hdr(1)), lambda: L.fn("empty", L.hdr(0)), lambda: L.fn("exists", L.hdr(1)),
        lambda: L.fn("yes"), lambda: L.fn("no"), lambda: L.fn("and", L.hdr(0), L.hdr(1)), lambda: L.fn("or", L.hdr(0), L.hdr(1)),
        lambda: L.fn("and", L.hdr(0), L.fn("yes"), L.hdr(1)), lambda: L.fn("or", L.fn("no"), L.hdr(2), L.hdr(1)),
        lambda: L.when(L.hdr(0), L.fn("push", L.term("s"), L.hdr(1))),
        lambda: L.when(L.eq(L.hdr(1), L.term("a")), L.assign(L.var("v"), L.hdr(0))),
        lambda: L.when(L.fn("above", L.hdr(0), L.term(1)), L.fn("stop")),
        lambda: L.when(L.fn("empty", L.hdr(0)), L.fn("skip")),
        lambda: L.when(L.eq(L.hdr(1), L.term("b")), L.fn("fail")),
        lambda: L.when(L.hdr(1), L.fn("advance", L.term(1))),
        lambda: L.assign(L.var("n"), L.fn("count")), lambda: L.assign(L.var("c"), L.fn("count_lines")),
        lambda: L.assign(L.var("k", ["key"]), L.hdr(1)), lambda: L.assign(L.var("o", ["onchange"]), L.hdr(1)),
        lambda: L.assign(L.var("l", ["latch"]), L.hdr(0)), lambda: L.assign(L.var("q", ["notnone"]), L.hdr(2)),
        lambda: L.fn("sum", L.hdr(0), quals=["sm"]), lambda: L.fn("counter", quals=["ct"]), lambda: L.fn("push", L.term("p"), L.hdr(0)),
        lambda: L.fn("pop", L.term("p")), lambda: L.fn("count", L.fn("exists", L.hdr(1)), quals=["cx"]),
        lambda: L.fn("stop", L.eq(L.hdr(1), L.term("b"))), lambda: L.fn("skip", L.fn("empty", L.hdr(0))),
        lambda: L.fn("fail_and_stop", L.fn("not", L.hdr(0))),
        lambda: L.print_node([L.t_text("n="), L.t_ref("variables", "n"), L.t_text(" l="), L.t_ref("csvpath", "line_number")], uid="pp"),
        lambda: L.fn("failed"), lambda: L.fn("valid"),
    ]
    return b


RECORDS = [[], ["1", "a"], ["2", "b"], ["10"], ["", "a"]]


def files(maxlen):
    out = [[]]
    for n in range(1, maxlen + 1):
        for combo in itertools.product(range(len(RECORDS)), repeat=n):
            out.append([list(RECORDS[i]) for i in combo])
    return out


def pool(tier, seed):
    ts = templates()
    rng = random.Random(seed)
    progs = [[t()] for t in ts]
    pairs = [(a, b) for a in range(len(ts)) for b in range(len(ts))]
    if tier == "quick":
        pairs = rng.sample(pairs, 120)
    for a, b in pairs:
        x, y = ts[a](), ts[b]()
        # one look-ahead per csvpath: '@n = count()' twice would recurse
        if sum(1 for c in (x, y) if c["k"] == "assign" and c["args"][1]["name"] == "count" and not c["args"][1]["args"]) > 1:
            continue
        # a look-ahead ('@n = count()') together with skip()/stop() is a listed finding (the look-ahead ignores them): not pooled
        def is_la(c):
            return c["k"] == "assign" and c["args"][1]["name"] == "count" and not c["args"][1]["args"]

        def is_ctl(c):
            return any(n["k"] == "fn" and n["name"] in ("skip", "stop", "fail_and_stop") for n in L.walk(c))

        if (is_la(x) and is_ctl(y)) or (is_la(y) and is_ctl(x)):
            continue
        # the same print node twice would share its once-marker; distinct uids
        if x["name"] == "print" and y["name"] == "print":
            y["name_q"] = "pp2"
        progs.append([x, y])
    fl = files(2 if tier == "quick" else 3)
    cases = []
    tid = 0
    scans = [L.scan("all"), L.scan("from", 1), L.scan("range", 0, 1)]
    for comps in progs:
        lastv = rng.random() < 0.2
        cs = list(comps)
        if lastv:
            cs = cs + [L.when(L.fn("last"), L.fn("push", L.term("lst"), L.fn("line_number")))]
        has_la = any(c["k"] == "assign" and c["args"][1]["name"] == "count" and not c["args"][1]["args"] for c in cs)
        if has_la and lastv:
            cs = cs[:-1]
        fsel = fl if tier != "quick" else rng.sample(fl, min(len(fl), 8))
        if tier != "quick":
            fsel = rng.sample(fl, 16)
        for f in fsel:
            AND = True if has_la else rng.random() < 0.75
            prog = {"scan": rng.choice(scans), "comps": cs, "meta": []}
            prog["initVars"] = L.init_vars(prog)
            cfg = {"AND": AND, "noMatches": rng.random() < 0.15, "keepUnmatched": rng.random() < 0.3, "collecting": True, "noRun": False,
                   "nexts": 0, "noDefaultPrint": False}
            cases.append({"tid": tid, "prog": prog, "records": f, "cfg": cfg})
            tid += 1
    return cases


def _run_real(case):
    d = scratch.scratch_dir() or scratch.enter_scratch()
    path = os.path.join(d, "m.csv")
    runner.write_csv(path, case["records"])
    text = L.render_csvpath(case["prog"], path, comment=comment_for(case["cfg"]))
    out = runner.run_standalone(text, method="collect", events=[])
    p = out["csvpath"]
    try:
        got = {
            "raised": out["raised"],
            "returned": None if out["lines"] is None else [list(l) for l in out["lines"]],
            "unmatched": [list(l) for l in (p.unmatched or [])],
            "vars": _norm_vars(p.variables),
            "valid": bool(p.is_valid), "matchCount": p.match_count, "scanCount": p.scan_count,
            "printed": [runner.txt(s) for s in out["printed"]],
        }
    except OutOfModel:
        return case["tid"], None, text.replace(path, "m.csv")
    return case["tid"], got, text.replace(path, "m.csv")


def _expected(case, rec):
    recs = case["records"]
    return {
        "raised": None,
        "returned": [recs[k] for k in rec["returned"]],
        "unmatched": [recs[k] for k in rec["unmatched"]],
        "vars": rec["vars"], "valid": rec["valid"], "matchCount": rec["matchCount"], "scanCount": rec["scanCount"],
        "printed": rec["printed"],
    }


def _vars_eq(a, b):
    def norm(vs):
        out = {}
        for e in vs:
            v = e["v"]
            if v["t"] == "dict":
                v = dict(v, items=sorted(v["items"], key=lambda x: json.dumps(x, sort_keys=True)))
            out[e["n"]] = json.dumps(v, sort_keys=True)
        return out
    return norm(a) == norm(b)


def tlc_pool(cases, dev=()):
    base = scratch._base()
    path = os.path.join(base, f"pool-{os.getpid()}-{len(dev)}.ndjson")
    with open(path, "w") as f:
        for c in cases:
            f.write(json.dumps({"tid": c["tid"], "prog": strip_private(c["prog"]), "file": L.enc_file(c["records"]), "cfg": c["cfg"]},
                               separators=(",", ":")) + "\n")
    devs = "{" + ", ".join(f'"{d}"' for d in sorted(dev)) + "}"
    name = f"_gen_MC_Run_{os.getpid()}_{len(dev)}.cfg"
    with open(os.path.join(common.VERIF, "spec", "MC_Run.cfg")) as f:
        cfg = f.read().replace("CONSTANT Dev = {}", f"CONSTANT Dev = {devs}")
    with open(os.path.join(common.VERIF, "spec", name), "w") as f:
        f.write(cfg)
    try:
        res = run_tlc("MC_Run", name, env={"POOL_FILE": path}, timeout=3000, keep_stdout=False)
    finally:
        for p in (path, os.path.join(common.VERIF, "spec", name)):
            try:
                os.remove(p)
            except OSError:
                pass
    return require_ok(res, "MC_Run")


def run_pool(rep, tier, judged, pid):
    """judged: subset of {"returned","unmatched","vars","valid","matchCount","scanCount","printed","raised"}"""
    cases = pool(tier, common.seed() + 99)
    res = tlc_pool(cases)
    rep.add_tlc(f"MC_Run: closed pool of {len(cases)} cases (component templates x files of <= {2 if tier == 'quick' else 3} records), all run-machine properties", res)
    if res.invariant_violated:
        rep.violation({"kind": "spec", "invariant": res.invariant_violated, "tail": res.stdout[-1500:]})
        return
    exp = {r["cid"]: r for r in res.records}
    outs = common.pmap(_run_real, cases, initializer=scratch.enter_scratch)
    bycase = {c["tid"]: c for c in cases}
    mism = []
    for tid, got, text in outs:
        if got is None:
            continue
        e = exp.get(tid)
        if e is None:
            raise MachineryError(f"MC_Run emitted no terminal state for case {tid}")
        want = _expected(bycase[tid], e)
        diff = [k for k in want if (not _vars_eq(got[k], want[k]) if k == "vars" else got[k] != want[k])]
        if diff:
            mism.append((tid, diff, got, want, text))
    # attribution to C01's listed findings: recompute the expectation under their deviations
    explained = set()
    if mism:
        sub = [bycase[t[0]] for t in mism]
        r2 = tlc_pool(sub, dev=("AboveCellsAsText", "LtIsLe"))
        rep.add_tlc("MC_Run on the mismatching cases under the deviations of C01's listed findings", r2)
        e2 = {r["cid"]: r for r in r2.records}
        for tid, diff, got, want, text in mism:
            w2 = _expected(bycase[tid], e2[tid])
            d2 = [k for k in w2 if (not _vars_eq(got[k], w2[k]) if k == "vars" else got[k] != w2[k])]
            if not d2:
                explained.add(tid)
                if pid == "C01":
                    rep.violation({"kind": "pool"}, finding="C01-above-below-compare-cells-as-text" if "above" in text or "gte" in text or "lte" in text else "C01-lt-answers-le")
            else:
                if any(k in judged for k in d2):
                    rep.violation({"kind": "pool-case", "fields": d2, "csvpath": text, "file_records": bycase[tid]["records"],
                                   "expected": {k: w2[k] for k in d2}, "got": {k: got[k] for k in d2}})
    rep.extra["pool_cases"] = len(cases)
    rep.extra["pool_cases_explained_by_C01_findings"] = len(explained)
    rep.evaluations += len(cases)
    rep.traces += len(cases)
