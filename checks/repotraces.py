"""Trace validation of the repository's OWN tests (thorough tiers of C01, C03, C04, C13).

The repository's tests run hundreds of hand-written csvpaths and assert a few facts about each. Here the same runs are recorded
(lib/verif_pytest_plugin.py wraps CsvPath.collect/next/fast_forward from outside while pytest runs a copy of tests/ in a scratch
directory) and every recorded execution is validated step by step against the run machine (RunTrace): all the fields after every
_consider_line call, not only what the test asserts. The program handed to the specification is read off the implementation's
parse tree (lib/fromimpl.py); runs outside the modelled subset are skipped and counted. repo_traces/ACCEPTED.json lists the runs
the specification accepts on the pinned tree (written by `tools/repotraces_accept.py`, never at check time): a listed run that is
rejected is a violation of the property that owns the differing field; an unlisted run is never judged."""
import hashlib
import json
import os
import shutil
import subprocess
import sys

from checks import runfam
from lib import common, runtrace, scratch
from lib.tlc import MachineryError

TEST_PATHS = ["tests/functions", "tests/productions", "tests/test_csvpath.py", "tests/test_or.py", "tests/test_comments.py", "tests/validity",
              "tests/test_scanner.py", "tests/test_lines.py"]
ACCEPTED = os.path.join(common.VERIF, "repo_traces", "ACCEPTED.json")


def key_of(rec, seen):
    base = rec["test"]
    n = seen.get(base, 0)
    seen[base] = n + 1
    return f"{base}#{n}"


def record():
    """run the repository's tests (a scratch copy of tests/ and config/, csvpath imported from /repo) with the recorder loaded"""
    base = scratch._base()
    d = os.path.join(base, "repotests")
    shutil.rmtree(d, ignore_errors=True)
    os.makedirs(d)
    shutil.copytree("/repo/tests", os.path.join(d, "tests"))
    shutil.copytree("/repo/config", os.path.join(d, "config"))
    out = os.path.join(d, "traces.ndjson")
    # lib.* comes from /verif; csvpath from wherever this process gets it (the editable install of /repo, or a PYTHONPATH set by the caller)
    env = dict(os.environ, VERIF_TRACE_OUT=out, PYTHONPATH=os.pathsep.join([p for p in [os.environ.get("PYTHONPATH"), common.VERIF] if p]),
               PYTHONHASHSEED="0")
    env.pop("CSVPATH_CONFIG_PATH", None)        # the tests use the repository's own config/config.ini (copied next to them)
    cmd = ["/venv/bin/python", "-m", "pytest", "-q", "-p", "no:cacheprovider", "-p", "lib.verif_pytest_plugin", "--timeout=900"] + TEST_PATHS
    p = subprocess.run(cmd, cwd=d, env=env, capture_output=True, text=True, timeout=2400)
    if os.path.exists(out + ".harness_failed"):
        raise MachineryError("the recorder's observation code failed while the repository's tests ran:\n" + open(out + ".harness_failed").read())
    if not os.path.exists(out):
        raise MachineryError(f"the recorder wrote no traces:\n{p.stdout[-1500:]}\n{p.stderr[-1500:]}")
    recs = [json.loads(l) for l in open(out)]
    skipped = {}
    if os.path.exists(out + ".skipped"):
        skipped = json.load(open(out + ".skipped"))
    tail = [l for l in p.stdout.splitlines() if " passed" in l or " failed" in l][-1:] or [""]
    shutil.rmtree(d, ignore_errors=True)
    seen = {}
    for r in recs:
        r["key"] = key_of(r, seen)
        r["sha"] = hashlib.sha256(r["csvpath"].encode()).hexdigest()[:16]
    return recs, skipped, tail[0]


def validate(recs):
    meta = {}
    slim = []
    for r in recs:
        meta[r["tid"]] = {k: r[k] for k in ("test", "method", "csvpath", "key", "sha")}
        slim.append({k: v for k, v in r.items() if k not in ("test", "method", "csvpath", "key", "sha")})
    res, v = runtrace.validate(slim, dev=("AboveCellsAsText", "LtIsLe"), timeout=1800)
    return res, v, meta


def run(rep, tier, judged, pid):
    if tier == "quick":
        return
    if not os.path.exists(ACCEPTED):
        raise MachineryError("repo_traces/ACCEPTED.json is missing")
    accepted = json.load(open(ACCEPTED))["runs"]
    recs, skipped, tail = record()
    res, v, meta = validate(recs)
    rep.add_tlc("RunTrace on the runs of the repository's own tests (deviations of C01's listed findings)", res)
    seen_keys = set()
    unjudged = unlisted = 0
    for r in recs:
        m = meta[r["tid"]]
        seen_keys.add(m["key"])
        if m["key"] not in accepted or accepted[m["key"]] != m["sha"]:
            unlisted += 1
            continue
        verdict, at, exp = v[r["tid"]]
        if verdict == "ok":
            continue
        f = runfam.field_of(verdict)
        if f not in judged:
            unjudged += 1
            continue
        rep.violation({"kind": "repo-test-run-rejected", "field": verdict, "at_event": at, "test": m["test"], "run_of_that_test": m["key"], "method": m["method"],
                       "csvpath": m["csvpath"], "expected_by_spec": exp,
                       "impl_event": r["events"][at - 1] if 0 < at <= len(r["events"]) else None})
    missing = [k for k in accepted if k not in seen_keys]
    rep.traces += len(recs)
    rep.evaluations += len(recs)
    rep.extra.update({"repo_test_runs_recorded": len(recs), "repo_test_runs_listed_as_accepted": len(accepted), "repo_test_runs_listed_but_not_recorded": len(missing),
                      "repo_test_runs_not_listed": unlisted, "repo_test_runs_rejected_in_fields_judged_elsewhere": unjudged,
                      "repo_test_runs_outside_the_model": skipped, "repo_tests_summary": tail})
    for r in recs:
        if meta[r["tid"]]["key"] in accepted:
            rep.nontrivial_case("repo:" + meta[r["tid"]]["key"])
