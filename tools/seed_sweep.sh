#!/bin/sh
# usage: sh tools/seed_sweep.sh <seed>...   - the quick tier of every check under each seed (development aid; use with `vp run`)
for sd in "$@"; do
  for id in C01 C02 C03 C04 C05 C06 C07 C08 C09 C10 C11 C12 C13 C14 C15 C16 C17 C18 C19 C20; do
    VERIF_SEED=$sd ./check $id quick > ss_${sd}_$id.log 2>&1; rc=$?
    echo "seed=$sd $id rc=$rc $(grep '^\[C' ss_${sd}_$id.log | tail -1 | cut -c1-150)"
  done
done
