#!/venv/bin/python
"""Binding demonstration (DESIGN 8): corrupt one logged field of an accepted trace / drop one event and show that the trace
specification rejects it and names the field; remove nothing else. Writes selftest/RESULT.json. Not part of quick/thorough."""
import copy, json, os, random, sys
sys.path.insert(0, os.path.dirname(os.path.dirname(os.path.abspath(__file__))))
from lib import common, gen, runtrace, scratch, lang

def main():
    scratch.enter_scratch()
    rng = random.Random(7)
    traces = []
    i = 0
    while len(traces) < 60:
        case = gen.make_case(random.Random(1000 + i), i, groups=("core", "control", "print", "validity"))
        i += 1
        rec, info = runtrace.run_case(case, "collect")
        if rec and len(rec["events"]) >= 3 and any(e["ret"] for e in rec["events"]) and rec["events"][-1]["vars"]:
            traces.append(rec)
    res, v = runtrace.validate(traces, dev=("AboveCellsAsText", "LtIsLe"))
    ok = [t for t in traces if v[t["tid"]][0] == "ok"]
    results = {"accepted_before_corruption": len(ok), "corruptions": []}
    def corrupt(name, fn, expect):
        muts = []
        for t in ok[:25]:
            c = copy.deepcopy(t)
            if fn(c):
                c["tid"] = t["tid"] + 100000
                muts.append(c)
        if not muts:
            results["corruptions"].append({"corruption": name, "applied": 0}); return
        _, vv = runtrace.validate(muts, dev=("AboveCellsAsText", "LtIsLe"))
        verdicts = [vv[m["tid"]][0] for m in muts]
        results["corruptions"].append({"corruption": name, "applied": len(muts), "rejected": sum(1 for x in verdicts if x != "ok"),
                                       "named_field_as_expected": sum(1 for x in verdicts if x.split(":")[0] in expect), "verdicts": sorted(set(verdicts))})
    def flip_vote(c):
        for e in c["events"]:
            if e["votes"] and e["scan_count"] > 0:
                j = 0
                e["votes"][j] = "f" if e["votes"][j] == "t" else "t"; return True
        return False
    def bump_var(c):
        for e in c["events"]:
            for var in e["vars"]:
                if var["v"]["t"] in ("int", "float"):
                    var["v"]["i"] += 1; return True
        return False
    def bump_scan(c):
        c["events"][-1]["scan_count"] += 1; return True
    def flip_ret(c):
        c["events"][1]["ret"] = not c["events"][1]["ret"]; return True
    def drop_event(c):
        del c["events"][1]; return True
    def flip_valid(c):
        c["events"][-1]["valid"] = not c["events"][-1]["valid"]; return True
    def extra_print(c):
        c["events"][-1]["printed"].append([120]); return True
    def final_line_cell(c):
        if c["final"]["lines"]:
            c["final"]["lines"][0][0] = c["final"]["lines"][0][0] + [33]; return True
        return False
    corrupt("flip one component vote", flip_vote, {"votes"})
    corrupt("add 1 to one numeric variable", bump_var, {"vars"})
    corrupt("add 1 to the last scan_count", bump_scan, {"scan_count"})
    corrupt("flip 'returned' of the second event", flip_ret, {"returned"})
    corrupt("drop the second event", drop_event, {"k"})
    corrupt("flip is_valid of the last event", flip_valid, {"valid"})
    corrupt("append a printed line to the last event", extra_print, {"printed"})
    corrupt("append a character to the first cell of the first delivered line", final_line_cell, {"final_lines"})
    # ---- the joint group machine (GroupRun.tla): recorded joint runs with cross-path signals
    from checks import jointrun
    outs = [jointrun._work((11, i)) for i in range(60)]
    jc = [o["case"] for o in outs if "case" in o and len(o["case"]["events"]) >= 3]
    _, jv = jointrun.validate(jc, dev=("AboveCellsAsText", "LtIsLe"))
    jok = [c for c in jc if jv[c["tid"]]["verdict"] == "ok"]
    results["joint_runs_accepted_before_corruption"] = len(jok)
    def jcorrupt(name, fn, expect):
        muts = []
        for t in jok[:25]:
            c = copy.deepcopy(t)
            if fn(c):
                c["tid"] = t["tid"] + 200000
                muts.append(c)
        if not muts:
            results["corruptions"].append({"corruption": name, "applied": 0}); return
        _, vv = jointrun.validate(muts, dev=("AboveCellsAsText", "LtIsLe"))
        verdicts = [vv[m["tid"]]["verdict"] for m in muts]
        results["corruptions"].append({"corruption": name, "applied": len(muts), "rejected": sum(1 for x in verdicts if x != "ok"),
                                       "named_field_as_expected": sum(1 for x in verdicts if x.split(":")[0] in expect), "verdicts": sorted(set(verdicts))})
    def j_member(c):
        if len(c["members"]) < 2: return False
        e = c["events"][0]; e["m"] = 2 if e["m"] == 1 else 1; return True
    def j_final_valid(c):
        c["final"]["members"][0]["valid"] = not c["final"]["members"][0]["valid"]; return True
    def j_all_valid(c):
        c["final"]["all_valid"] = not c["final"]["all_valid"]; return True
    def j_drop_last(c):
        del c["events"][-1]; return True
    def j_yield(c):
        if c["kind"] != "byline" or not c["final"]["checkYield"]: return False
        c["final"]["yielded"] = c["final"]["yielded"] + [len(c["file"]) + 3]; return True
    def j_event_valid(c):
        c["events"][-1]["valid"] = not c["events"][-1]["valid"]; return True
    jcorrupt("joint run: give the first _consider_line call to another member", j_member, {"schedule_member", "k"})
    jcorrupt("joint run: flip the final verdict of the first member", j_final_valid, {"final_valid"})
    jcorrupt("joint run: flip the run manifest's all_valid", j_all_valid, {"all_valid"})
    jcorrupt("joint run: drop the last _consider_line call", j_drop_last, {"missing_event", "final_valid", "final_stopped", "final_scan_count", "final_match_count", "final_vars", "k", "schedule_member"})
    jcorrupt("joint run: one more record handed to the caller", j_yield, {"yielded"})
    jcorrupt("joint run: flip is_valid of the last call", j_event_valid, {"valid"})
    # ---- the relation "one run" (SameRun.tla) and the error handler inside runs
    from lib import samerun
    pairs = []
    for t in ok[:25]:
        c = copy.deepcopy(t)
        pairs.append(samerun.case(t["tid"], t, [samerun.other(c, "same", lines=True)]))
    _, sv = samerun.validate(pairs)
    results["same_run_identical_copies_accepted"] = sum(1 for c in pairs if sv[c["tid"]]["verdict"] == "ok")
    bad_pairs = []
    for t in ok[:25]:
        c = copy.deepcopy(t)
        c["events"][-1]["scan_count"] += 1
        bad_pairs.append(samerun.case(t["tid"] + 300000, t, [samerun.other(c, "same", lines=True)]))
    _, sv2 = samerun.validate(bad_pairs)
    vs = [sv2[c["tid"]]["verdict"] for c in bad_pairs]
    results["corruptions"].append({"corruption": "same run: add 1 to the last scan_count of the other execution", "applied": len(vs),
                                   "rejected": sum(1 for x in vs if x != "ok"), "named_field_as_expected": sum(1 for x in vs if x == "event:scan_count"), "verdicts": sorted(set(vs))})
    # 'silent' (C15: print-mode no-default): the same run that wrote a line to standard out is rejected; a prefix relation over a
    # base run that raised compares no lines (C07)
    sil = []
    for t in ok[:25]:
        c = copy.deepcopy(t)
        c["final"]["stdout"] = [[120]]
        sil.append(samerun.case(t["tid"] + 600000, t, [samerun.other(c, "silent", lines=True)]))
    _, sv3 = samerun.validate(sil)
    vs = [sv3[c["tid"]]["verdict"] for c in sil]
    results["corruptions"].append({"corruption": "silent run: one line on standard out", "applied": len(vs),
                                   "rejected": sum(1 for x in vs if x != "ok"), "named_field_as_expected": sum(1 for x in vs if x == "final_stdout"), "verdicts": sorted(set(vs))})
    etraces = []
    i = 0
    while len(etraces) < 40 and i < 400:
        case = gen.make_case(random.Random(5000 + i), 400000 + i, groups=("core", "errors"))
        i += 1
        rec, info = runtrace.run_case(case, "collect")
        if rec and rec["events"] and rec["events"][-1]["nerrors"] > 0:
            etraces.append(rec)
    _, ev = runtrace.validate(etraces, dev=("AboveCellsAsText", "LtIsLe"))
    eok = [t for t in etraces if ev[t["tid"]][0] == "ok"]
    results["error_runs_accepted_before_corruption"] = len(eok)
    muts = []
    for t in eok[:25]:
        c = copy.deepcopy(t)
        c["tid"] = t["tid"] + 100000
        c["events"][-1]["nerrors"] += 1
        c["events"][-1]["errlines"] = c["events"][-1]["errlines"] + [0]
        muts.append(c)
    _, mv = runtrace.validate(muts, dev=("AboveCellsAsText", "LtIsLe"))
    vs = [mv[m["tid"]][0] for m in muts]
    results["corruptions"].append({"corruption": "error run: one more collected error record at the last call", "applied": len(vs),
                                   "rejected": sum(1 for x in vs if x != "ok"), "named_field_as_expected": sum(1 for x in vs if x == "errors"), "verdicts": sorted(set(vs))})
    os.makedirs(os.path.join(common.VERIF, "selftest"), exist_ok=True)
    with open(os.path.join(common.VERIF, "selftest", "RESULT.json"), "w") as f:
        json.dump(results, f, indent=1)
    print(json.dumps(results, indent=1))
    bad = [c for c in results["corruptions"] if c.get("applied") and c["rejected"] != c["applied"]]
    return 1 if bad else 0

sys.exit(main())
