#!/usr/bin/env python3
"""Re-run every confirmed seeded change against the current checks (development aid).
usage: tools/reseed_all.py [jobs]   - each job uses its own scratch worktree of /repo under /tmp/reseed-N (removed afterwards);
the patch is applied there and the worktree is put first on PYTHONPATH; /repo itself is not touched."""
import json, os, subprocess, sys, glob, concurrent.futures as cf

HERE = os.path.dirname(os.path.dirname(os.path.abspath(__file__)))
JOBS = int(sys.argv[1]) if len(sys.argv) > 1 else 4


def run(args):
    slot, d = args
    wt = f"/tmp/reseed-{slot}"
    meta = json.load(open(os.path.join(d, "meta.json")))
    pid = os.path.basename(d).split("-")[0]
    subprocess.run(["git", "-C", wt, "checkout", "-q", "--", "."], check=False)
    a = subprocess.run(["git", "-C", wt, "apply", os.path.join(d, "patch.diff")], capture_output=True, text=True)
    if a.returncode != 0:
        return d, "patch does not apply", ""
    env = dict(os.environ, PYTHONPATH=wt)
    p = subprocess.run([os.path.join(HERE, "check"), pid, "quick"], capture_output=True, text=True, env=env, cwd=HERE)
    subprocess.run(["git", "-C", wt, "checkout", "-q", "--", "."], check=False)
    viol = sum(1 for l in p.stdout.splitlines() if l.startswith("VIOLATION"))
    last = [l for l in p.stdout.splitlines() if l.startswith("[C")]
    return d, ("caught" if p.returncode == 1 and viol else f"MISSED rc={p.returncode}"), (last[-1][:150] if last else p.stderr[-300:])


def main():
    dirs = sorted(glob.glob(os.path.join(HERE, "seeded", "C*")))
    head = subprocess.run(["git", "-C", "/repo", "rev-parse", "HEAD"], capture_output=True, text=True).stdout.strip()
    for s in range(JOBS):
        subprocess.run(["git", "-C", "/repo", "worktree", "add", "-q", "--detach", f"/tmp/reseed-{s}", head], check=False)
    try:
        # checks of one property never run concurrently (generated cfg names); slots take whole properties
        byprop = {}
        for d in dirs:
            byprop.setdefault(os.path.basename(d).split("-")[0], []).append(d)
        props = sorted(byprop)
        def worker(slot):
            out = []
            for i, p in enumerate(props):
                if i % JOBS == slot:
                    for d in byprop[p]:
                        out.append(run((slot, d)))
            return out
        with cf.ThreadPoolExecutor(JOBS) as ex:
            res = [r for lst in ex.map(worker, range(JOBS)) for r in lst]
        for d, verdict, line in sorted(res):
            print(f"{os.path.basename(d):55s} {verdict:12s} {line}")
        missed = [d for d, v, _ in res if v != "caught"]
        print(f"{len(res) - len(missed)}/{len(res)} caught")
        return 1 if missed else 0
    finally:
        for s in range(JOBS):
            subprocess.run(["git", "-C", "/repo", "worktree", "remove", "--force", f"/tmp/reseed-{s}"], check=False)


if __name__ == "__main__":
    sys.exit(main())
