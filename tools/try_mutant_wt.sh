#!/bin/sh
# usage: tools/try_mutant_wt.sh <patch.diff> <check id> <worktree> [tier]
# Like try_mutant.sh but leaves /repo alone: the patch is applied in a scratch worktree that is put
# first on PYTHONPATH (development aid only - registered checks always run against /repo).
set -u
P="$1"; ID="$2"; WT="$3"; TIER="${4:-quick}"
cd "$WT" && git checkout -q -- . && git checkout -q --detach "$(git -C /repo rev-parse HEAD)" && git apply "$P" || { echo "PATCH DOES NOT APPLY"; exit 3; }
cd /verif && PYTHONPATH="$WT" ./check "$ID" "$TIER" 2>&1 | grep -E "^\[C|VIOLATION|KNOWN|MACHINERY" | cut -c1-160 | tail -4
cd "$WT" && git checkout -q -- .
