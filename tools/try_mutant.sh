#!/bin/sh
# usage: tools/try_mutant.sh <patch.diff> <check id> [tier]  -- applies the patch to /repo, runs the check, reverts
set -u
P="$1"; ID="$2"; TIER="${3:-quick}"
cd /repo && git apply "$P" || { echo "PATCH DOES NOT APPLY"; exit 3; }
cd /verif && ./check "$ID" "$TIER" 2>&1 | grep -E "^\[C|VIOLATION|KNOWN|MACHINERY" | cut -c1-160 | tail -4
cd /repo && git checkout -- . 
