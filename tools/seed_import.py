#!/usr/bin/env python3
"""seed_import.py <ID> <name> <check> <tier> <caught: yes|no|after-strengthening> [note]
Copies a confirmed seeded change from /tmp/seeded into /verif/seeded/<ID>-<name>/ and regenerates seeded/INDEX.md."""
import json, os, shutil, sys

def main():
    if len(sys.argv) >= 6:
        pid, name, check, tier, caught = sys.argv[1:6]
        note = sys.argv[6] if len(sys.argv) > 6 else ""
        src = os.path.join(os.environ.get("SEEDED_ROOT", "/tmp/seeded"), pid, name)
        dst = f"/verif/seeded/{pid}-{name}"
        os.makedirs(dst, exist_ok=True)
        for fn in ("patch.diff", "demo.py"):
            shutil.copy(os.path.join(src, fn), os.path.join(dst, fn))
        meta = json.load(open(os.path.join(src, "meta.json")))
        conf = {}
        if os.path.exists(os.path.join(src, "confirm.json")):
            conf = json.load(open(os.path.join(src, "confirm.json")))
        meta["property"] = pid
        meta["confirmed_in_scratch_worktree"] = conf or "pending"
        meta["what_i_ran"] = ("tools/confirm_seeded.sh: git apply in a scratch worktree, demo.py with and without the patch, full test suite compared "
                              "with /root/.vp/BASELINE.json; then tools/try_mutant.sh: git -C /repo apply, ./check %s %s, git -C /repo checkout -- ." % (check, tier))
        meta["detected_by"] = {"check": check, "tier": tier, "caught": caught, "note": note}
        json.dump(meta, open(os.path.join(dst, "meta.json"), "w"), indent=1)
    rows = []
    for d in sorted(os.listdir("/verif/seeded")):
        mp = os.path.join("/verif/seeded", d, "meta.json")
        if not os.path.exists(mp):
            continue
        m = json.load(open(mp))
        det = m.get("detected_by", {})
        conf = m.get("confirmed_in_scratch_worktree")
        ok = isinstance(conf, dict) and conf.get("demo_exit_clean") == 0 and conf.get("demo_exit_patched") not in (0, None) and conf.get("stable_tests_pass_with_patch")
        rows.append(f"| {d} | {m.get('property')} | {' '.join(str(m.get('summary')).split())[:160].replace('|','/')} | {' '.join(str(m.get('needs')).split())[:160].replace('|','/')} | "
                    f"{'yes' if ok else 'pending'} | {det.get('check')} {det.get('tier')} | {det.get('caught')} {det.get('note','')[:120]} |")
    with open("/verif/seeded/INDEX.md", "w") as f:
        f.write("# Seeded changes (written by independent sub-agents that saw only the property text) and the checks that catch them\n\n")
        f.write("| directory | property | change | needs | confirmed (demo fails with / passes without, suite unchanged) | check | caught |\n|---|---|---|---|---|---|---|\n")
        f.write("\n".join(rows) + "\n")
    print(f"{len(rows)} seeded changes indexed")

main()
