#!/bin/sh
# runs the thorough tier of every check in turn (development aid; use with `vp run -- sh tools/thorough_all.sh`)
for id in C01 C02 C03 C04 C05 C06 C07 C08 C09 C10 C11 C12 C13 C14 C15 C16 C17 C18 C19 C20; do
  s=$(date +%s); ./check $id thorough > thorough_$id.log 2>&1; rc=$?; e=$(date +%s)
  echo "$id rc=$rc wall=$((e-s)) $(grep '^\[C' thorough_$id.log | tail -1 | cut -c1-170)"
done
