#!/usr/bin/env python3
"""Compare a junit xml of the repo's suite with /root/.vp/BASELINE.json: every stable_pass test must pass."""
import json, sys
import xml.etree.ElementTree as ET

base = json.load(open("/root/.vp/BASELINE.json"))
stable = set(base["stable_pass"])
root = ET.parse(sys.argv[1]).getroot()
status = {}
for tc in root.iter("testcase"):
    name = f'{tc.get("classname")}::{tc.get("name")}'
    bad = any(ch.tag in ("failure", "error") for ch in tc)
    skipped = any(ch.tag == "skipped" for ch in tc)
    status[name] = "fail" if bad else ("skip" if skipped else "pass")
missing = [t for t in stable if t not in status]
failed = [t for t in stable if status.get(t) not in ("pass",) and t in status]
print(f"stable_pass={len(stable)} seen={len(status)} stable passing={sum(1 for t in stable if status.get(t)=='pass')}")
for t in sorted(failed): print("REGRESSION", t, status[t])
for t in sorted(missing)[:20]: print("MISSING", t)
sys.exit(1 if failed or missing else 0)
