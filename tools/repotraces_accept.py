#!/venv/bin/python
"""Record the runs of the repository's own tests and write repo_traces/ACCEPTED.json: the runs the run machine accepts on the
current tree (development tool; run on the pinned tree only - checks never write this file)."""
import json, os, sys
sys.path.insert(0, os.path.dirname(os.path.dirname(os.path.abspath(__file__))))
from lib import common, scratch
from checks import repotraces

scratch.enter_scratch()
recs, skipped, tail = repotraces.record()
res, v, meta = repotraces.validate(recs)
runs, rejected = {}, []
for r in recs:
    m = meta[r["tid"]]
    if v[r["tid"]][0] == "ok":
        runs[m["key"]] = m["sha"]
    else:
        rejected.append({"run": m["key"], "verdict": v[r["tid"]][0], "csvpath": m["csvpath"][:300]})
os.makedirs(os.path.join(common.VERIF, "repo_traces"), exist_ok=True)
with open(os.path.join(common.VERIF, "repo_traces", "ACCEPTED.json"), "w") as f:
    json.dump({"_doc": "runs of the repository's own tests that spec/RunTrace.tla accepts on the pinned tree (key: test id # ordinal of the run in that test; value: hash of the csvpath)",
               "tests": tail, "runs": dict(sorted(runs.items())), "not_accepted_not_judged": rejected, "outside_the_model": skipped}, f, indent=1)
print(f"{len(runs)} accepted, {len(rejected)} not accepted, outside the model: {sum(skipped.values())}; tests: {tail}")
