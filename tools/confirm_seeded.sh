#!/bin/sh
# usage: tools/confirm_seeded.sh <property id> <name> <worktree>
# Confirms a seeded change in a scratch worktree: the patch applies, the demo fails with it and passes
# without it, and the repository's stable tests still pass with it. Writes /tmp/seeded/<id>/<name>/confirm.json
ID="$1"; NAME="$2"; WT="$3"
D="${SEEDED_ROOT:-/tmp/seeded}/$ID/$NAME"
cd "$WT" || exit 2
git checkout -q -- . ; git clean -fdq
env PYTHONPATH="$WT" /venv/bin/python "$D/demo.py" > "$D/confirm_demo_clean.log" 2>&1; CLEAN=$?
git apply "$D/patch.diff" || { echo '{"applies": false}' > "$D/confirm.json"; exit 1; }
env PYTHONPATH="$WT" /venv/bin/python "$D/demo.py" > "$D/confirm_demo_patched.log" 2>&1; PATCHED=$?
env PYTHONPATH="$WT" /venv/bin/python -m pytest -q -p no:cacheprovider --timeout=900 --continue-on-collection-errors --junitxml="$D/confirm_suite.xml" tests/ > "$D/confirm_suite.log" 2>&1
python3 /verif/tools/check_baseline.py "$D/confirm_suite.xml" > "$D/confirm_baseline.txt" 2>&1; BASE=$?
git checkout -q -- . ; git clean -fdq
printf '{"applies": true, "demo_exit_clean": %s, "demo_exit_patched": %s, "stable_tests_pass_with_patch": %s, "suite_summary": "%s"}\n' "$CLEAN" "$PATCHED" "$( [ $BASE -eq 0 ] && echo true || echo false )" "$(tail -1 "$D/confirm_suite.log" | tr -d '"' )" > "$D/confirm.json"
cat "$D/confirm.json"
