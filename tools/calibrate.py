#!/venv/bin/python
"""Calibration run: generate cases, run them for real, validate with TLC, summarise verdicts."""
import collections, json, os, random, sys, time
sys.path.insert(0, os.path.dirname(os.path.dirname(os.path.abspath(__file__))))
from lib import common, gen, runtrace, scratch, lang

def work(args):
    seed, tid, groups = args
    rng = random.Random(seed * 1000003 + tid)
    case = gen.make_case(rng, tid, groups=groups)
    if os.environ.get("NO_ADJ") and case["prog"].get("_adjacent_refs"):
        case["prog"]["comps"] = case["prog"]["comps"][:0] + [c for c in case["prog"]["comps"] if not (c["k"]=="fn" and c["name"]=="print")] or [lang.fn("yes")]
        case["prog"]["initVars"] = lang.init_vars(case["prog"])
    try:
        rec, info = runtrace.run_case(case, "collect")
    except Exception as e:
        import traceback
        return tid, None, {"harness_exc": traceback.format_exc()[-800:], "csvpath": lang.render_csvpath(case["prog"], "f.csv"), "records": case["records"]}
    return tid, rec, info

def dec(x):
    """decode uniform value records / text for display"""
    if isinstance(x, dict) and set(x) == {"t","i","s","items"}:
        t = x["t"]
        if t == "none": return None
        if t == "bool": return bool(x["i"])
        if t == "int": return x["i"]
        if t == "float": return float(x["i"])
        if t == "str": return "".join(map(chr, x["s"]))
        if t == "list": return [dec(y) for y in x["items"]]
        if t == "dict": return {str(dec(p["items"][0])): dec(p["items"][1]) for p in x["items"]}
        if t == "pair": return (dec(x["items"][0]), dec(x["items"][1]))
    if isinstance(x, dict): return {k: dec(v) for k, v in x.items()}
    if isinstance(x, list):
        if x and all(isinstance(y, int) for y in x) and all(y >= 9 for y in x): return "".join(map(chr, x))
        return [dec(y) for y in x]
    return x

def main():
    n = int(sys.argv[1]) if len(sys.argv) > 1 else 200
    seed = int(sys.argv[2]) if len(sys.argv) > 2 else 0
    groups = tuple(sys.argv[3].split(",")) if len(sys.argv) > 3 else ("core",)
    dev = tuple(sys.argv[4].split(",")) if len(sys.argv) > 4 and sys.argv[4] else ()
    t0 = time.time()
    out = common.pmap(work, [(seed, i, groups) for i in range(n)], initializer=scratch.enter_scratch)
    recs = [r for _, r, _ in out if r is not None]
    infos = {tid: info for tid, _, info in out}
    print(f"ran {n} cases in {time.time()-t0:.1f}s; {len(recs)} traces; out-of-model {sum(1 for _,r,i in out if r is None and 'out_of_model' in i)}; harness errors {sum(1 for _,r,i in out if 'harness_exc' in i)}")
    for tid, r, i in out:
        if 'harness_exc' in i:
            print("HARNESS", i['csvpath'], i['harness_exc'][-300:]); break
    t1 = time.time()
    res, verdicts = runtrace.validate(recs, dev=dev)
    print(f"TLC {time.time()-t1:.1f}s states={res.distinct} verdicts={len(verdicts)}")
    c = collections.Counter(v[0] for v in verdicts.values())
    print(c)
    shown = collections.Counter()
    for tid, (v, at, exp) in sorted(verdicts.items()):
        if v != "ok" and shown[v] < int(os.environ.get("SHOW", "3")):
            shown[v] += 1
            i = infos[tid]
            print("----", tid, v, "at event", at)
            print(i["csvpath"]); print(i["records"]); print("EXPECTED:", dec(exp)); print("GOT event:", i["events"][at-1] if at-1 < len(i["events"]) else None); print("raised:", i["raised"], "vars:", i.get("variables"), "returned:", i.get("returned"))
    missing = [r["tid"] for r in recs if r["tid"] not in verdicts]
    if missing: print("NO VERDICT for", missing[:10])

main()
