#!/usr/bin/env python3
"""Regenerate MANIFEST.json from the table below (one entry per claimed property)."""
import json, os

HERE = os.path.dirname(os.path.dirname(os.path.abspath(__file__)))

CLAIMED = {
    "C02": dict(
        text="TLC explores exhaustively every scan AST of the quantifier's shapes x every file with blanks anywhere "
        "(spec/Scan.tla, spec/ScanRun.tla; invariants OfferedExactly, NothingElse, NoEarlyStop), and every terminal "
        "state is replayed through the real CsvPath.collect(); the includes() table of every scan AST is compared "
        "with a really parsed Scanner. Exhaustive within the stated bounds on both sides.",
        note="Trusted: TLC, python csv for writing blank records, the observer match part yes() push(\"ln\", line_number()). "
        "Bounds: quick N<=3/bounds<=5/2 operands (tables to 6); thorough N<=5/bounds<=7/3 operands (tables to 12, 3 operands).",
        technique="TLA+ spec (Scan/ScanRun) model-checked with TLC; TLC behaviours replayed into CsvPath.collect and Scanner.includes",
        ref="7 (C02)",
    ),
}

NOT_YET = {}

ALL = [f"C{n:02d}" for n in range(1, 21)]


def main():
    checks = []
    for pid in ALL:
        if pid not in CLAIMED:
            continue
        c = CLAIMED[pid]
        checks.append(
            {
                "property_id": pid,
                "quick_cmd": f"./check {pid} quick",
                "thorough_cmd": f"./check {pid} thorough",
                "evidence_file": f"/verif/evidence/{pid}.json",
                "replay_cmd_template": f"./check {pid} --replay {{path}}",
                "engine": "tlc+replay",
                "level_claimed": {"category": "model_checking", "text": c["text"], "design_ref": c["ref"]},
                "level_note": c["note"],
                "technique": c["technique"],
            }
        )
    na = [
        {"property_id": pid, "reason": NOT_YET.get(pid, "check not built yet in this round; planned with the same technique (see DESIGN.md section 7)")}
        for pid in ALL
        if pid not in CLAIMED
    ]
    m = {
        "version": 1,
        "setup_cmd": "./setup.sh",
        "hooks": {
            "guard": "CSVPATH_VERIF",
            "enable": "no source hooks: checks interpose from outside on the installed (editable) /repo tree; CSVPATH_VERIF is reserved",
            "baseline_off_cmd": "cd /repo && /venv/bin/python -m pytest -ra -q -p no:cacheprovider --timeout=900 --continue-on-collection-errors",
            "source_commits": [],
            "add_only": True,
        },
        "engines": [
            {
                "name": "tlc+replay",
                "path": "/verif/check",
                "serves_properties": sorted(CLAIMED),
                "kind_free_text": "explicit TLA+ specifications (spec/*.tla) checked with TLC; behaviours replayed into / traces validated against the real csvpath code",
            }
        ],
        "checks": checks,
        "not_applicable": na,
        "notes": "See DESIGN.md. Exit 0 = held on everything explored (KNOWN-FINDING lines allowed), 1 = VIOLATION, 2 = machinery failure.",
    }
    with open(os.path.join(HERE, "MANIFEST.json"), "w") as f:
        json.dump(m, f, indent=1)
    print("claimed:", sorted(CLAIMED))


if __name__ == "__main__":
    main()
