#!/usr/bin/env python3
"""Regenerate MANIFEST.json from the table below (one entry per claimed property)."""
import json, os

HERE = os.path.dirname(os.path.dirname(os.path.abspath(__file__)))

CLAIMED = {
    "C06": dict(
        text="The wiring statement of Run.tla (a returned line IS file[k]; HeadersOf = cleaned cells of the first non-blank record; #name and #index "
        "read the same stripped cell; a header beyond a short row is None) is checked by RunTrace on files generated from arbitrary cell text "
        "(quotes, both quote characters, all four delimiters, newlines, non-ASCII, every kind of Unicode blank, empty cells), 0-12 records of 0-6 "
        "cells with blank records anywhere, under every delimiter x quote character: the final step compares the delivered lines cell by cell "
        "with file[k] (final_lines), the header names with HeadersOf (headers) and the values captured via #name/#index (vars).",
        note="Applicability: encode/decode fidelity is not what a state machine decides; the spec contributes the wiring statement and TLC compares "
        "cell matrices. Trusted: python's csv writer/reader round trip under one consistent dialect, UTF-8 files, CR and NUL excluded.",
        technique="trace validation against the TLA+ run machine (cell-by-cell comparison of delivered lines and headers by TLC)",
        ref="7 (C06)",
    ),
    "C17": dict(
        text="spec/Syntax.tla generates every component tree of the documented match grammar up to nesting depth 1 over a lexicon containing every "
        "token kind (plain, indexed, qualified and quoted headers incl. quoted names with blanks and dots; variables; terms; references in the four "
        "positions the grammar gives them; functions of arity 0-3), with its token sequence; TLC enumerates them (two trees with one token sequence = an ambiguity of the documented grammar). "
        "Every tree is written out and parsed for real: no _ambig node in the Lark tree, and the projected component tree (kinds, names, qualifiers, "
        "operators, argument order, literal values) must equal the emitted one. Sequences of trees under 4 random layouts each (whitespace, newlines, "
        "~comments~ between components, outer comments without mode settings) must project identically; every function name of the factory is "
        "checked with each argument shape its own validation accepts; generated runnable programs under three layouts must be one run (spec/SameRun.tla).",
        note="Applicability: the model is a generator and structural oracle, not a temporal one. Trusted: TLC; the projection in checks/c17.py. Tokens "
        "inside a component are separated by single blanks; layout varies between components only (the statement).",
        technique="TLA+ grammar spec enumerated by TLC; every derivation replayed into the real parser and the projected tree compared",
        ref="7 (C17)",
    ),
    "C19": dict(
        text="spec/History.tla: jobs run directly, through a CsvPaths instance (the route that consults the on-disk line/header cache) or as named runs "
        "(the job's file registered under one shared named-file name, whatever was registered under it before - incl. X, Y, X), NewProcess "
        "(process-global registries reset, disk cache kept), ClearCache; HistoryFree (a job's result is a function of the job alone) checked by "
        "TLC; every emitted history is replayed with one fresh python interpreter per process segment sharing a scratch cache directory, each "
        "job's full result tuple (lines, variables, printouts, errors, verdict, counters, headers) compared with the same job run first in a fresh "
        "process with an empty cache; files have header cells with quotes, delimiters, blanks and names on which header cleaning is not idempotent.",
        note="Trusted: TLC; subprocess isolation; each process has its own PYTHONHASHSEED. Histories with a warm-cache/not-in-memory job are prioritised. One CsvPaths instance per process.",
        technique="TLA+ history spec model-checked with TLC; TLC-generated histories replayed with real interpreter processes",
        ref="7 (C19)",
    ),

    "C16": dict(
        text="spec/Print.tla defines a template as a sequence of text and reference items and Emitted as their concatenation with each "
        "reference replaced by the value current when the print executes (variables plain/.key/.index/.length/unknown, headers by name/index, "
        "metadata, runtime fields); Eval.tla's print clause adds once/onmatch. TLC (spec/MC_Print.tla) enumerates every arrangement of up to 3 "
        "items over 7 text shapes x 9 reference kinds (adjacent, separated, start/end), checks TextOnly and NothingLost and emits the expected "
        "output; every arrangement is replayed as a real print(). In addition generated csvpaths with print templates that reference variables "
        "assigned before/after the print on the same line are validated per line by RunTrace (printed compared after every line).",
        note="Trusted: TLC; text directly after a reference starts with a character that ends the reference's name (grammar) and a literal dot is "
        "written '..' (docs/printing.md). Known finding: adjacent references. Whole lists/dicts are not printed (Python repr is outside the value model).",
        technique="TLA+ template spec: TLC-enumerated arrangements replayed into print(); implementation traces validated against the run machine",
        ref="7 (C16)",
    ),

    "C18": dict(
        text="spec/Archive.tla's Abort action with AbortLeavesRecords/AbortedStaysAborted/CompleteMeansAllSaved (TLC, serial and breadth-first "
        "lifecycles) and spec/ArchiveTrace.tla's AbortDiff. Every (member, line) abort point in groups of 1-4 csvpaths, for serial and "
        "breadth-first methods, is injected through the DSL (line_number() == K -> @boom = mod(5, 0) under validation-mode raise); the "
        "recorded manager calls are replayed as Archive actions and the projection must show: exception reached the caller, every started "
        "member saved with readable meta/vars/errors, the aborting error with its line number in errors.json, completed false, earlier members "
        "complete (C09 agreement), run manifest not complete, input stores byte-identical; a follow-up run on the same instance must "
        "archive normally into its own fresh directory without touching the aborted run.",
        note="Trusted: TLC; the projector; fault position chosen through the DSL. Known finding: an abort on the last line of the scan leaves completed: true.",
        technique="fault enumeration through the DSL; recorded lifecycle and archive projection validated by TLC against the TLA+ Archive spec",
        ref="7 (C18)",
    ),
    "C20": dict(
        text="spec/Chain.tla: Input(m) is what stage m-1 collected iff stage m declares source-mode preceding; TLC checks Composition (chain == "
        "composition of its stages) and NoLeak over all abstract filter stages. spec/ChainTrace.tla validates recorded runs: the records each "
        "member was actually shown are a prefix of Chain!Input, the member manifest names the right actual_data_file, every "
        "$name.variables.v[.key] / $name.headers.h reference evaluates to RefExpected over the referenced member's most recent run (1-3 runs, "
        "data changed between runs), and a results reference used as file name replays the referenced data.csv. Each stage's behaviour on the "
        "required input is validated by RunTrace.",
        note="Each stage's run in its chain must be the run of that csvpath alone over the input Chain.tla requires (SameRun.tla); what a run should be is not judged here. Trusted: TLC. Variable references also go to two-member groups whose members assign the same variable (the later member's value: docs/variables.md); "
        "header references and replays go to one-member groups over ragged data; the group that replays a results reference is itself a chain of 1-3 members. Known finding: a preceding member whose predecessor collected nothing aborts with FileNotFoundError.",
        technique="TLA+ chain spec model-checked with TLC; recorded stage inputs and reference values validated by TLC against the spec",
        ref="7 (C20)",
    ),

    "C08": dict(
        text="spec/Group.tla: members x schedule with the GENERAL interleaving as Next; TLC checks Solo (a member's results are a function of "
        "itself and of the records it consumed) over all interleavings and a negative control with a shared flag must violate it; SerialStep "
        "and ByLineStep are the implementation's two schedules, Keep the breadth-first yield rule. spec/MC_GroupRun.tla proves the same on CONCRETE members: over a closed pool of signal-free groups SoloConcrete (every "
        "member ends exactly as its standalone run ends, under both schedules) and YieldRule (union / intersection of the decisions of the "
        "members that looked at a record) are TLC invariants, and the pool with cross-path signals must violate SoloConcrete. Binding: "
        "generated groups and the pooled groups are run standalone, with the 3 serial and the 3 breadth-first methods (with/without "
        "if_all_agree); every member's run in every way must BE its standalone run (spec/SameRun.tla: call by call and in the final state) "
        "and the recorded global schedule of _consider_line calls plus the lines handed to the caller are validated by spec/GroupTrace.tla.",
        note="Trusted: TLC; class-level interposition on CsvPaths.csvpath and CsvPath._consider_line; yielded lines are mapped to records by "
        "object identity. The general interleaving is checked on the specification only. What a run should be is not judged here (the "
        "member traces are also validated against the run machine; the count is reported).",
        technique="TLA+ interleaving specs model-checked with TLC (abstract and concrete members); recorded schedules, yields and the relation 'same run' validated by TLC",
        ref="7 (C08)",
    ),
    "C09": dict(
        text="spec/Archive.tla is the run lifecycle (StartRun, AddResult, Save, SignalStopAll, CompleteRun, Abort; serial vs breadth-first "
        "ordering; a serial run that stop_all() shuts down cancels the members that have not started and is still completed) with "
        "CompleteMeansAllSaved, SaveAfterAdd, AbortLeavesRecords, CancelledIsSuffix, CancelledNeverAdded, EveryRunEnds, AbortedStaysAborted "
        "checked by TLC; spec/ArchiveTrace.tla replays the "
        "recorded ResultsManager calls of real runs as those actions and then requires the projected archive (vars.json, errors.json, "
        "printouts.txt, data.csv, unmatched.csv parsed back; member manifests valid/completed/error_count/file_fingerprints with hashes "
        "recomputed from the bytes on disk; run manifest status/all_valid/all_completed/error_count; ResultsManager.is_valid) to agree "
        "with the in-memory results, completed being computed from the scan AST by Scan.tla.",
        note="Trusted: TLC; the projector lib/archiverun.py (JSON/CSV parsing by the standard library); printed lines contain no newline. "
        "Generated groups over files with quotes, delimiters and newlines in extra cells; six methods.",
        technique="TLA+ lifecycle spec model-checked with TLC; recorded manager calls and archive projection validated against the spec",
        ref="7 (C09)",
    ),
    "C10": dict(
        text="spec/RunDirs.tla models the clock, the runs with their collision index and :last/:first resolution (ties of one second left open); "
        "TLC checks FreshDir, DenseIdx, Chronological, LastIsNewest, EarlierUntouched over all sequences of runs (2 groups x new/reused "
        "instance x 6 methods x 4 clock moves incl. across 12:59->13:00 and midnight). Histories are replayed with a fake clock into real "
        "CsvPaths instances: after each run the set of run directories must be exactly the spec's (24-hour names), every file of every "
        "earlier run byte-identical, and $g.results.<prefix>:last/:first must resolve to an admissible run.",
        note="Trusted: TLC; csvpath.csvpaths.datetime replaced by a fake. Replay: all histories of length <=2 (quick) / <=3 (thorough) with two "
        "representative methods + random longer histories with four methods; length 5 with all six methods on the specification only.",
        technique="TLA+ spec model-checked with TLC; TLC-generated histories replayed into the implementation with a fake clock",
        ref="7 (C10)",
    ),

    "C11": dict(
        text="spec/NamedFiles.tla models the store (source bytes, per-name manifest, stored versions) with Add/Mutate/Remove/NewInstance; TLC "
        "explores all operation sequences up to length 6 on the abstract store (history hidden by a VIEW) checking CurrentOnDisk, "
        "ManifestMatchesDisk, NoRepeatEntries and the action properties VersionsImmutable, ManifestAppendOnly, SourceEditsInvisible; all "
        "histories up to a length and random longer ones (tlc -simulate) are replayed step by step into a real FileManager, comparing "
        "get_named_file (bytes, sha256 file name), get_fingerprint_for_name, the manifest and every stored file after each operation.",
        note="Trusted: TLC, hashlib. Three contents (one non-UTF-8). remove only issued for a present name. Replay: quick all histories of "
        "length 2 + random length 8; thorough all of length 3 + random length 12.",
        technique="TLA+ store spec model-checked with TLC; TLC-generated histories replayed into the implementation with state comparison after every step",
        ref="7 (C11)",
    ),
    "C12": dict(
        text="spec/NamedPaths.tla models groups of abstract member tokens with Add/ReAdd/Replace/Remove/NewInstance, Select/From/To and a manifest "
        "with one entry per change of content; TLC checks ManifestCurrent, NoRepeatEntries, SelectionsConsistent, OneEntryPerChange "
        "exhaustively and emits histories; each is replayed into a real PathsManager with the tokens concretised per history by generated "
        "csvpaths (identity in six spellings with lower-precedence decoys, free text, other fields, inner comments, newlines), comparing "
        "get_named_paths(name), name#id, $name.csvpaths.id[:from|:to] and the manifest (fingerprint of the stored group file) after every step.",
        note="Trusted: TLC; comment layout follows docs/comments.md (free text before the first field or after a stand-alone colon). "
        "Known finding: a member containing the separator text does not round-trip.",
        technique="TLA+ store spec model-checked with TLC; TLC-generated histories replayed into the implementation",
        ref="7 (C12)",
    ),

    "C05": dict(
        text="spec/ErrorPolicy.tla gives the handler (stop, collect, fail, print, raise in code order; validation-mode overrides win "
        "over the policy); spec/MC_ErrorPolicy.tla enumerates all 64 policies x overrides x 6 error kinds (argument mismatch on the "
        "component / in value position, a function's own rule, a Python exception, nested, right of ->) x every non-empty set of "
        "offending lines, and TLC checks the property's five iff-clauses (written independently) on every behaviour; every behaviour "
        "is replayed through a real CsvPath with the policy written to a generated config.ini (empty policy via a Config object), each "
        "through one of 24 concrete error shapes probed at the start of the check. The handler is also part of the run machine (Eval!Flush = "
        "ErrorPolicy!HandleN after every line): generated programs with error-provoking components at any position among ordinary "
        "components, under random policies and validation-mode overrides, are validated call by call by RunTrace (records with line "
        "numbers, the call on which messages are printed, verdict, stop, the exception that ends the run, returned lines).",
        note="Trusted: TLC, the probed concrete error-provoking components as representatives of their kinds. printed/collected are judged "
        "per offending line (>= 1 record), not by exact count. match/no-match overrides only with built-in argument validation on the component.",
        technique="TLA+ spec (ErrorPolicy) model-checked exhaustively with TLC, all behaviours replayed into the implementation; implementation traces validated against the run machine extended with the handler",
        ref="7 (C05)",
    ),
    "C14": dict(
        text="spec/Assign.tla transcribes the qualifier decision table; spec/MC_Assign.tla is the property's full quantifier (256 subsets x "
        "y^3 x rest^3 = 241 408 behaviours, 965 632 states) on which TLC checks 13 prose invariants written from docs/assignment.md and the "
        "property statement; every behaviour (quick: a 1/16 covering sample containing all 256 subsets) is replayed as a real csvpath over a "
        "3-line file comparing, per line, the value of x, the assignment's vote and whether the line was returned.",
        note="Trusted: TLC; y absent = row too short for the header index; the rest of the line is one equality component.",
        technique="TLA+ decision table model-checked exhaustively with TLC; every TLC behaviour replayed into the implementation",
        ref="7 (C14)",
    ),

    "C01": dict(
        text="Every generated (csvpath, file) is run through the real CsvPath with one event per _consider_line call "
        "(returned?, per-component votes, counters, variables, printouts); TLC validates each recorded trace step by step "
        "against the run machine spec/RunTrace.tla = Run.tla + Eval.tla (a recursive TLA+ evaluator of the match language) + "
        "Scan.tla + Assign.tla + Values.tla, so a trace is accepted iff the implementation returned exactly the lines the "
        "specification's evaluation of the components says, at every line. Rejections are re-validated under the named "
        "deviations of the listed known findings (lt answers <=; cells compared as text). MC_Run's closed pool of (program, file, mode) cases is "
        "explored exhaustively by TLC and every terminal state replayed into the real CsvPath. Thorough tier: the runs the repository's own "
        "tests make (hand-written csvpaths, recorded by a pytest plugin loaded from outside, program read off the parse tree) are validated "
        "the same way; the runs listed in repo_traces/ACCEPTED.json must stay accepted.",
        note="Trusted: TLC, the projection (lib/runner.snapshot), python csv round trip. Generated programs stay inside the "
        "modelled function set and are built so that no argument-validation error arises (C05 covers errors). "
        "At most one onmatch look-ahead per csvpath; a 'last() ->' component comes last (the property's quantifier).",
        technique="trace validation: implementation traces checked by TLC against an explicit TLA+ run machine + evaluator",
        ref="7 (C01)",
    ),
    "C03": dict(
        text="Same trace validation as C01; judged fields are the whole variable store after every line (plain, tracking and "
        "stack variables and the bookkeeping of count/tally/sum/subtotal/counter/first/push/pop), scan_count, match_count and "
        "the printouts, compared with the state the TLA+ evaluator (Eval.tla) reaches for the same line.",
        note="Trusted as C01. Variables named by hash ids (_intx_...) and tracking entries created by a mere read are outside "
        "the judged variables (spec/CHOICES.md). Non-integral floats are out of the value model (counted, not judged).",
        technique="trace validation against the TLA+ run machine (Run/Eval/Values)",
        ref="7 (C03)",
    ),
    "C04": dict(
        text="Trace validation of generated csvpaths with conditional fail()/fail_and_stop()/failed()/valid(): the is_valid bit "
        "logged after every line must equal the specification's; ValidityMonotone is checked by TLC as an action property on "
        "every validated trace (thorough: also the runs of the repository's own tests, recorded by a pytest plugin from outside); MC_Run's closed pool (all behaviours, terminal states replayed into the real CsvPath) is judged on the "
        "verdict. Aggregation: named-paths groups with failing members under all six run methods are validated by ArchiveTrace (member "
        "manifests' valid, the run manifest's all_valid and ResultsManager.is_valid(name) are the conjunction of the members' verdicts). "
        "fail_all(): groups whose members raise the cross-path signals are validated by the joint machine spec/GroupRun.tla (concrete members, "
        "coordinator rules of the serial and line-major schedules); C04 judges validity per line, the final verdicts and all_valid. "
        "Errors: the error handler is part of the run machine (Eval!Flush = ErrorPolicy!HandleN); generated programs with fail() and "
        "error-provoking components under random policies and validation-mode overrides are judged on the verdict (False iff the effective "
        "policy fails the file, and never True again).",
        note="Trusted as C01. Everything else the error handler does is judged by C05. The coordinator rules of GroupRun.tla mirror the code where the only documentation is a docstring (spec/CHOICES.md).",
        technique="trace validation against the TLA+ run machine and the joint group machine; TLC action properties ValidityMonotone / GroupValidityMonotone; closed pool model-checked and replayed",
        ref="7 (C04)",
    ),
    "C07": dict(
        text="spec/SameRun.tla states 'these recorded executions are one run' as a relation checked by TLC: every _consider_line call of "
        "next() and of fast_forward() leaves the state collect() left after the same call (line, returned or not, counters, stop state, "
        "validity, votes, variables, printouts), the runs have the same number of calls and the same final state (and delivered lines where a "
        "method delivers them); collect(nexts=n) is the base run cut after the call that returned the n-th line, with the final state of "
        "exactly that moment (no side effect of a later line) and the first n lines. Each generated case (control, validity and "
        "line-rewriting functions) is run for real with all four entry points.",
        note="What the run should be is C01/C03/C04/C13's business: the traces are also validated against the run machine and the count is "
        "reported, but a run all methods agree on is not a C07 violation. _freeze_path after an abandoned generator is not compared.",
        technique="TLA+ relation spec (SameRun) validated by TLC on executions recorded from the four entry points",
        ref="7 (C07)",
    ),

    "C13": dict(
        text="Trace validation of generated csvpaths with conditional stop/fail_and_stop/skip/advance at every position and "
        "last()/last()-> components, over files with interior and trailing blank records and all scan shapes: stopped, advance, "
        "the side effects of every component (stacks, variables, printouts) and the returned lines are compared per line with "
        "the run machine (Eval!Fold checks stop/skip before each component; Run!Consider models advance and the blank final record).",
        note="Trusted as C01. onmatch look-ahead together with skip/stop is excluded (spec/CHOICES.md).",
        technique="trace validation against the TLA+ run machine (control functions)",
        ref="7 (C13)",
    ),
    "C15": dict(
        text="Run part: generated csvpaths x combinations of logic-mode, return-mode, unmatched-mode, run-mode written in the outer "
        "comment; traces validated against Run.tla (no-matches inverts the per-line decision, keep partitions the records read "
        "into returned/unmatched, no-run reads nothing).",
        note="Trusted as C01. The metadata-parser part (Meta.tla) is a separate instance of this check (see DESIGN).",
        technique="trace validation against the TLA+ run machine (modes)",
        ref="7 (C15)",
    ),

    "C02": dict(
        text="TLC explores exhaustively every scan AST of the quantifier's shapes x every file with blanks anywhere "
        "(spec/Scan.tla, spec/ScanRun.tla; invariants OfferedExactly, NothingElse, NoEarlyStop), and every terminal "
        "state is replayed through the real CsvPath.collect(); the includes() table of every scan AST is compared "
        "with a really parsed Scanner. Exhaustive within the stated bounds on both sides.",
        note="Trusted: TLC, python csv for writing blank records, the observer match part yes() push(\"ln\", line_number()). "
        "Bounds: quick N<=3/bounds<=5/2 operands (tables to 6); thorough N<=5/bounds<=7/3 operands (tables to 12, 3 operands).",
        technique="TLA+ spec (Scan/ScanRun) model-checked with TLC; TLC behaviours replayed into CsvPath.collect and Scanner.includes",
        ref="7 (C02)",
    ),
}

NOT_YET = {}

ALL = [f"C{n:02d}" for n in range(1, 21)]


# what the later rounds of seeded changes added to each check (DESIGN 0.5), appended to the level text
ADDED = {
    "C01": " Sums over columns with empty cells are used as values; conditions may carry nocontrib.",
    "C02": " Every third terminal state is also replayed as a one-member named-paths group with collect_paths and collect_by_line.",
    "C03": " Assignments from count(<something>), counters with increments of 0 or read from a cell, stacks popped while they hold equal values. Assignments from cells carry notnone (an empty cell is a value).",
    "C04": " Verdict-report runs: csvpaths whose only variables are line-by-line reports of valid()/failed() around conditional fail(); error runs with fail(), skip() and error components; exceptions that escape a member's run loop in a group, against MC_ErrorPolicy's one-line behaviours.",
    "C05": " Error runs inside the run machine (Eval!Flush = ErrorPolicy!HandleN) with control functions, incl. errors raised under last() on a file that ends in a blank record; exceptions that escape a member's run loop in a named-paths run (handled under the member's policy).",
    "C06": " The same csvpath as a member of a named-paths group next to a member that appends a header (all six methods) and in a later run on the same instance, its trace validated by the run machine.",
    "C07": " collect() (the function) of a header a matched line need not have: the hand-over fails in every method at the same call. 30% of the cases run under return-mode: no-matches.",
    "C08": " Each member's collected data.csv in every collecting way equals its standalone lines.",
    "C09": " Groups print to the default and to named printouts (compared section by section); early-failing members followed by erroring members; a non-final member that raises stop_all() under the member-major methods (under next_paths the later members are cancelled: no directory, no result, the run manifest is still completed and speaks about the members that ran). Every other group is run again at once on the same instance: a run directory of its own whose archive says what that run did.",
    "C10": " Histories with fast-forward (data-less) runs and with abandoned next_* generators; references asked by the instance that ran, one that ran earlier and one that never ran.",
    "C11": " NamedFiles!AddRace: a producer writes the source while it is being registered (the write injected just before / after the registration's copy); all histories of length 2 with a racing add.",
    "C12": " A csvpath without identity may occur more than once in a list; member texts contain empty lines. Identities also sit in the outer comment below the csvpath.",
    "C14": " An empty cell is among the values of y (a value, not None) in the subsets without increase/decrease/asbool.",
    "C15": " Every mode case is driven by collect() and by fast_forward(); SameRun 'silent': a bare CsvPath with and without print-mode: no-default is the same run, and silent.",
    "C17": " Literal twins (csvpaths that differ only inside a literal) parsed in sequence in one process; layout runs compare the hash-named variables too; an arbitrary-name qualifier keeps its case.",
    "C18": " Abort points include line 0; aborts also under the shipped default policy (raise, collect, stop, fail, print); members that finished before the abort. A third of the member-major aborts come from an exception that escapes the member's run loop (collect(99) on the aborting line).",
    "C19": " Every process of a history has its own string-hash seed; jobs with generated variable names; files of one physical line.",
    "C20": " A member of the referenced group reads the group's variables mid-run; the last of several runs may collect nothing (a replay by reference then has nothing to read).",
}


def main():
    for pid, extra in ADDED.items():
        if pid in CLAIMED:
            CLAIMED[pid]["text"] = CLAIMED[pid]["text"] + extra
    checks = []
    for pid in ALL:
        if pid not in CLAIMED:
            continue
        c = CLAIMED[pid]
        checks.append(
            {
                "property_id": pid,
                "quick_cmd": f"./check {pid} quick",
                "thorough_cmd": f"./check {pid} thorough",
                "evidence_file": f"/verif/evidence/{pid}.json",
                "replay_cmd_template": f"./check {pid} --replay {{path}}",
                "engine": "tlc+replay",
                "level_claimed": {"category": "model_checking", "text": c["text"], "design_ref": c["ref"]},
                "level_note": c["note"],
                "technique": c["technique"],
            }
        )
    na = [
        {"property_id": pid, "reason": NOT_YET.get(pid, "check not built yet in this round; planned with the same technique (see DESIGN.md section 7)")}
        for pid in ALL
        if pid not in CLAIMED
    ]
    m = {
        "version": 1,
        "setup_cmd": "./setup.sh",
        "hooks": {
            "guard": "CSVPATH_VERIF",
            "enable": "no source hooks: checks interpose from outside on the installed (editable) /repo tree; CSVPATH_VERIF is reserved",
            "baseline_off_cmd": "cd /repo && /venv/bin/python -m pytest -ra -q -p no:cacheprovider --timeout=900 --continue-on-collection-errors",
            "source_commits": [],
            "add_only": True,
        },
        "engines": [
            {
                "name": "tlc+replay",
                "path": "/verif/check",
                "serves_properties": sorted(CLAIMED),
                "kind_free_text": "explicit TLA+ specifications (spec/*.tla) checked with TLC; behaviours replayed into / traces validated against the real csvpath code",
            }
        ],
        "checks": checks,
        "not_applicable": na,
        "notes": "See DESIGN.md. Exit 0 = held on everything explored (KNOWN-FINDING lines allowed), 1 = VIOLATION, 2 = machinery failure.",
    }
    with open(os.path.join(HERE, "MANIFEST.json"), "w") as f:
        json.dump(m, f, indent=1)
    print("claimed:", sorted(CLAIMED))


if __name__ == "__main__":
    main()
