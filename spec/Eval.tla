-------------------------------- MODULE Eval --------------------------------
(***************************************************************************)
(* Denotation of the match part of a csvpath on one line                   *)
(* (csvpath/matching: matcher.py, productions, functions).                 *)
(*                                                                         *)
(* AST node (uniform shape):                                               *)
(*   [k, name, name_q, quals, args, val, track, tmpl]                      *)
(*   k     "hdr" | "var" | "term" | "fn" | "eq" | "assign" | "when"        *)
(*   name  variable / function name (STRING); "" otherwise                 *)
(*   quals set-like sequence of qualifier names (STRING)                   *)
(*   args  children: fn arguments; <<left, right>> for eq/assign/when      *)
(*   val   term value; header name (str) or index (int)                    *)
(*   track first non-keyword qualifier as a str value, or None             *)
(*         (tracking key of a variable)                                    *)
(*   name_q the same qualifier as a STRING ("" if none): the variable a    *)
(*         function keeps its bookkeeping under; for a string term the     *)
(*         string itself (stack names of push/pop)                         *)
(*                                                                         *)
(*   tmpl  the parsed template of a print() (Print.tla), <<>> otherwise    *)
(* ctx (constant while a line is matched):                                 *)
(*   [line, headers, k, dataCount, endNum, lastScan, totalData, AND, comps,*)
(*    meta]                                                                *)
(* st (threaded through evaluation, in evaluation order):                  *)
(*   [vars, stopped, skip, advance, valid, matchCount, curMatch, scanCount,*)
(*    printed, frozen, memo, cur, line, headers, limit, appended, sig,     *)
(*    errors (lines of the collected error records), errPrinted (number of *)
(*    lines on which error messages went to the printers), pending, raised]*)
(*   memo[i] \in {"n","t","f"}: the per-line vote memo of Matcher.expressions *)
(*                                                                         *)
(* Ev returns [val, vote, st]: what to_value() and matches() of the node   *)
(* give, and the state after its side effects.                             *)
(*                                                                         *)
(* Dev: set of named deviations (known findings). {} = documented meaning. *)
(***************************************************************************)
EXTENDS Values, Assign, Print, ErrorPolicy, TLC

CONSTANT Dev

R(val, vote, st) == [val |-> val, vote |-> vote, st |-> st]
\* st.sig: the cross-path signals this csvpath has raised and the CsvPaths instance has not yet taken note of (GroupRun.tla)
NoSig == [stop |-> FALSE, fail |-> FALSE, skip |-> FALSE, adv |-> 0]
QSet(node) == {node.quals[j] : j \in 1..Len(node.quals)}
Has(node, q) == q \in QSet(node)
\* the nocontrib of the left of a when/do: the qualifier of the leftmost header, variable or function under ==, = and ->
\* (Equality._left_nocontrib)
RECURSIVE LeftNoContrib(_)
LeftNoContrib(n) == IF n.k \in {"eq", "assign", "when"} THEN LeftNoContrib(n.args[1]) ELSE Has(n, "nocontrib")

\* ---- headers -------------------------------------------------------------------------------------
\* st.headers: the current header names (append() adds to them); st.line: the current line as a sequence of values
\* (the cells of the record as text; replace() and append() may put any value there)
HdrIndex(node, hs) ==
  IF node.val.t = "int" THEN node.val.i
  ELSE IF \E j \in 1..Len(hs) : hs[j] = node.val.s
         THEN (CHOOSE j \in 1..Len(hs) : hs[j] = node.val.s /\ \A m \in 1..(j-1) : hs[m] # node.val.s) - 1
         ELSE -1
Cell(v) == IF v.t = "str" THEN VStr(Strip(v.s)) ELSE v
CellText(v) == StrOf(v)
\* the cell, stripped; a header the row does not reach, or an unknown name, is None
HdrRaw(node, st) ==
  LET n == HdrIndex(node, st.headers) IN
    IF n < 0 \/ n >= Len(st.line) THEN None ELSE Cell(st.line[n + 1])
LineOf(cells) == [j \in 1..Len(cells) |-> VStr(cells[j])]
TextsOf(line) == [j \in 1..Len(line) |-> CellText(line[j])]
\* CsvPath.limit_collection: the line as it is handed to the caller (collect() projects it)
Limited(st) == IF st.limit = <<>> THEN st.line ELSE [j \in 1..Len(st.limit) |-> st.line[st.limit[j] + 1]]

RaiseMatch(st) == IF st.curMatch = st.matchCount
                    THEN [st EXCEPT !.matchCount = st.matchCount + 1] ELSE st

\* ordinal comparison (docs/functions/above.md): numbers, then text; one side None => False
Cmp(op, a, b) ==
  LET strict == op \in {"above", "gt", "after", "below", "lt", "before"}
      up     == op \in {"above", "gt", "after", "gte"}
      numeric == IF "AboveCellsAsText" \in Dev
                   THEN IsNum(a) /\ IsNum(b) /\ a.t = b.t      \* the implementation: same Python type only
                   ELSE NumLike(a) /\ NumLike(b)
      x == IF numeric THEN NumOf(a) ELSE 0
      y == IF numeric THEN NumOf(b) ELSE 0
      ta == Strip(StrOf(a))
      tb == Strip(StrOf(b))
      ltStrict == IF "LtIsLe" \in Dev THEN FALSE ELSE strict   \* the implementation answers <= for lt
  IN IF (a.t = "none") # (b.t = "none") THEN FALSE
     ELSE IF numeric
       THEN IF up THEN (IF strict THEN x > y ELSE x >= y)
            ELSE (IF ltStrict THEN x < y ELSE x <= y)
       ELSE IF up THEN (IF strict THEN TextLt(tb, ta) ELSE TextLe(tb, ta))
            ELSE (IF ltStrict THEN TextLt(ta, tb) ELSE TextLe(ta, tb))

\* between / inside (strict), from_to / range (inclusive), beyond / outside: numbers first, then text; bounds in either order
Between(op, me, a, b) ==
  LET numeric == NumLike(me) /\ NumLike(a) /\ NumLike(b)
      lt(x, y) == IF numeric THEN NumOf(x) < NumOf(y) ELSE TextLt(Strip(StrOf(x)), Strip(StrOf(y)))
      hi == IF lt(b, a) THEN a ELSE b
      lo == IF lt(b, a) THEN b ELSE a
  IN IF me.t = "none" \/ a.t = "none" \/ b.t = "none" THEN FALSE
     ELSE IF op \in {"between", "inside"} THEN lt(me, hi) /\ lt(lo, me)
     ELSE IF op \in {"from_to", "range"} THEN ~lt(hi, me) /\ ~lt(me, lo)
     ELSE (lt(hi, me) /\ lt(lo, me)) \/ (lt(me, hi) /\ lt(me, lo))

\* in(x, a, b, ...): terms are |-delimited lists of stripped strings; other values are taken as they are
RECURSIVE SplitPipe(_, _)
SplitPipe(s, acc) ==
  IF s = <<>> THEN <<VStr(Strip(acc))>>
  ELSE IF Head(s) = 124 THEN <<VStr(Strip(acc))>> \o SplitPipe(Tail(s), <<>>)
  ELSE SplitPipe(Tail(s), Append(acc, Head(s)))
RECURSIVE InValues(_, _)
InValues(args, rs) ==
  IF args = <<>> THEN <<>>
  ELSE (IF Head(args).k = "term" THEN SplitPipe(Strip(StrOf(Head(rs).val)), <<>>)
        ELSE IF Head(rs).val.t = "list" THEN Head(rs).val.items
        ELSE <<Head(rs).val>>) \o InValues(Tail(args), Tail(rs))

\* equals(a, b): exactly one falsy => False; both numbers => numeric; else the string forms
EqualsFn(l, r) ==
  IF Truthy(l) # Truthy(r) THEN FALSE
  ELSE IF l.t = "none" /\ r.t = "none" THEN TRUE
  ELSE IF NumLike(l) /\ NumLike(r) THEN NumOf(l) = NumOf(r)
  ELSE StrOf(l) = StrOf(r)

NonBlankCell(c) == Strip(c) # <<>>
\* a cell of the current line "exists": not None and not blank (a rewritten cell may hold any value)
PresentCell(v) == v.t # "none" /\ Strip(StrOf(v)) # <<>>

RECURSIVE SumNums(_)
SumNums(rs) == IF rs = <<>> THEN 0 ELSE (IF IsNone(Head(rs).val) THEN 0 ELSE NumOf(Head(rs).val)) + SumNums(Tail(rs))
RECURSIVE SubNums(_, _)
SubNums(acc, rs) == IF rs = <<>> THEN acc ELSE SubNums(acc - NumOf(Head(rs).val), Tail(rs))
RECURSIVE MulNums(_, _)
MulNums(acc, rs) == IF rs = <<>> THEN acc ELSE MulNums(acc * NumOf(Head(rs).val), Tail(rs))
RECURSIVE Concat(_)
Concat(rs) == IF rs = <<>> THEN <<>> ELSE StrOf(Head(rs).val) \o Concat(Tail(rs))
AllVotes(rs) == \A j \in 1..Len(rs) : rs[j].vote
AnyVote(rs) == \E j \in 1..Len(rs) : rs[j].vote
ListHas(xs, v) == \E j \in 1..Len(xs) : PyEq(xs[j], v)

RECURSIVE Ev(_, _, _), Ev0(_, _, _), EvArgs(_, _, _), LA(_, _, _), EvFn(_, _, _), TallyStore(_, _, _, _)

\* A Python exception raised while a function computes (mod by zero) unwinds to the enclosing match component
\* (Expression.matches catches it): st.unwind is set where it is raised, nothing is evaluated and no composite acts while it is
\* set, and the component boundary (Fold, LA) clears it; the component votes negative and one error is pending for Flush.
Raise(st) == [st EXCEPT !.unwind = TRUE, !.pending = @ + 1]
\* "the line does not match (unless validation-mode says match)": with validation-mode: match a component in which an error arose
\* votes positive - unless the error is handed to the caller, which ends the run
\* (IMPL detail of the vote, only visible in the per-component votes of the line on which the run ends: an argument-validation
\* error that is handed to the caller is raised before the vote is taken; an exception leaves the vote open, which counts as positive)
VmSays(ctx, f) == f \in DOMAIN ctx.vm /\ ctx.vm[f]
MatchOnError(ctx) == VmSays(ctx, "match")
MatchOnMismatch(ctx) == VmSays(ctx, "match") /\ ~Eff(ctx.policy, ctx.vm, "raise")
Unwound(st) == R(None, FALSE, st)

\* arguments are evaluated left to right, all of them, before the function decides
\* (Function.matches/to_value validate the argument values first: Matchable.sibling_values)
EvArgs(args, st, ctx) ==
  IF args = <<>> THEN [rs |-> <<>>, st |-> st]
  ELSE LET r == Ev(Head(args), st, ctx)
           more == EvArgs(Tail(args), r.st, ctx)
       IN [rs |-> <<[val |-> r.val, vote |-> r.vote]>> \o more.rs, st |-> more.st]

\* Expression.matches: the component's vote; an exception beneath it makes it False and ends here
EvComp(comp, st, ctx) == LET r == Ev(comp, st, ctx)
                         IN IF r.st.unwind THEN R(None, MatchOnError(ctx), [r.st EXCEPT !.unwind = FALSE]) ELSE r

\* Qualified.line_matches: the onmatch look-ahead over all OTHER top-level components, in order,
\* memoising their votes, stopping at the first negative, raising the match count on success.
LA(j, st, ctx) ==
  IF j > Len(ctx.comps) THEN [ok |-> TRUE, st |-> RaiseMatch(st)]
  ELSE IF j = st.cur \/ st.memo[j] = "t" THEN LA(j + 1, st, ctx)
  ELSE IF st.memo[j] = "f" THEN [ok |-> FALSE, st |-> st]
  ELSE LET r == EvComp(ctx.comps[j], [st EXCEPT !.cur = j], ctx)
           st2 == [r.st EXCEPT !.cur = st.cur, !.memo[j] = IF r.vote THEN "t" ELSE "f"]
       IN IF r.vote THEN LA(j + 1, st2, ctx) ELSE [ok |-> FALSE, st |-> st2]

TallyStore(vars, name, v, dummy) ==
  LET key == StrOf(v) IN
    IF Strip(key) = <<>> THEN vars
    ELSE LET c == GetTracked(vars, name, VStr(key))
             n == IF c.t = "none" THEN 0 ELSE c.i
         IN SetTracked(vars, name, VStr(key), VInt(n + 1))

\* ---- functions ---------------------------------------------------------------------------------
\* node.name_q is the variable name taken from the first non-keyword qualifier (STRING, "" if none)
EvFn(node, st0, ctx) ==
  LET D == ctx.AND
      nm == node.name
      \* onmatch: everything else on the line must match first (look-ahead), else the function is inert
      \* (count(x) interprets onmatch itself: it counts only when x votes true; last() decides below)
      la == IF Has(node, "onmatch") /\ nm \notin {"count", "last"}
              THEN LA(1, st0, ctx) ELSE [ok |-> TRUE, st |-> st0]
      active == la.ok
      \* last(action): the action is in match position and runs only when last() holds
      \* print(text, f()): f is a follow-up that runs after the entry was printed, and only if it was (see the print clause)
      ea == IF nm = "last" THEN [rs |-> <<>>, st |-> la.st]
            ELSE IF nm = "print" /\ Len(node.args) = 2 /\ node.args[2].k # "term" THEN EvArgs(<<node.args[1]>>, la.st, ctx)
            ELSE EvArgs(node.args, la.st, ctx)
      rs == ea.rs
      st == ea.st
      A(j) == rs[j].val
      N == Len(rs)
      vname(dflt) == IF node.name_q = "" THEN dflt ELSE node.name_q
  IN
  IF ea.st.unwind THEN Unwound(ea.st)
  ELSE IF ~active THEN
       \* Function.matches: default vote, no effect.  to_value: the default value
       \* (None; sum() gives the running sum)
       R(IF nm = "sum" THEN GetVar(la.st.vars, vname("sum")) ELSE None, D, la.st)
  ELSE
  CASE nm \in {"yes", "true"}  -> R(VBool(TRUE), TRUE, st)
    [] nm \in {"no", "false"}  -> R(VBool(FALSE), FALSE, st)
    [] nm = "not"    -> R(VBool(~rs[1].vote), ~rs[1].vote, st)
    [] nm = "and"    -> R(VBool(AllVotes(rs)), AllVotes(rs), st)
    [] nm = "or"     -> R(VBool(AnyVote(rs)), AnyVote(rs), st)
    [] nm = "exists" -> R(VBool(~IsEmpty(A(1))), ~IsEmpty(A(1)), st)
    [] nm = "empty"  -> LET b == \A j \in 1..N : IsEmpty(A(j)) IN R(VBool(b), b, st)
    [] nm \in {"above", "gt", "after", "below", "lt", "before", "gte", "lte"}
                     -> LET b == Cmp(nm, A(1), A(2)) IN R(VBool(b), b, st)
    [] nm \in {"between", "inside", "from_to", "range", "beyond", "outside"}
                     -> LET b == Between(nm, A(1), A(2), A(3)) IN R(VBool(b), b, st)
    [] nm = "in"     -> LET b == ListHas(InValues(Tail(node.args), Tail(rs)), A(1)) IN R(VBool(b), b, st)
    [] nm \in {"equals", "eq"} -> LET b == EqualsFn(A(1), A(2)) IN R(VBool(b), b, st)
    [] nm = "any"    -> LET b == (\E j \in 1..Len(st.line) : PresentCell(st.line[j]))
                                 \/ (\E j \in 1..Len(st.vars) : ~IsNone(st.vars[j].v))
                        IN R(VBool(b), b, st)
    [] nm \in {"all", "missing"} ->
          LET ok == IF N = 0 THEN Len(st.line) = Len(st.headers) /\ \A j \in 1..Len(st.line) : PresentCell(st.line[j])
                    ELSE \A j \in 1..N : ~(A(j).t = "none" \/ (A(j).t = "str" /\ Strip(A(j).s) = <<>>))
              b == IF nm = "missing" THEN ~ok ELSE ok
          IN R(VBool(b), b, st)
    [] nm = "none"   -> IF N = 0 THEN R(None, TRUE, st) ELSE R(None, IsNone(A(1)), st)
    \* value producers without a vote of their own (see count_lines below)
    [] nm = "count_headers"         -> R(VInt(Len(st.headers)), FALSE, st)
    [] nm = "count_headers_in_line" -> R(VInt(Len(st.line)), FALSE, st)
    [] nm = "end"    ->      \* the cell n places before the last cell of THIS line (stripped, like every function value)
          LET i == Len(st.line) - 1 - (IF N = 0 THEN 0 ELSE (IF NumOf(A(1)) < 0 THEN 0 - NumOf(A(1)) ELSE NumOf(A(1))))
              v == IF i >= 0 /\ i < Len(st.line) THEN Cell(st.line[i + 1]) ELSE None
          IN R(v, v.t # "none", st)
    [] nm = "firstmatch" ->  \* no line has matched yet and this one does (a look-ahead)
          IF st.matchCount = 0
            THEN LET l == LA(1, st, ctx) IN R(VBool(l.ok), l.ok, l.st)
            ELSE R(VBool(FALSE), FALSE, st)
    [] nm \in {"header_name", "header_index"} ->   \* index -> name, name -> index; with an expected value: do they agree
          LET x == A(1)
              isnum == x.t = "int" \/ (x.t = "str" /\ IsDigits(Strip(x.s)))
              i == NumOf(x)
              actual == IF isnum
                          THEN (IF i >= 0 /\ i < Len(st.headers) THEN VStr(st.headers[i + 1]) ELSE None)
                          ELSE LET h == HdrIndex([val |-> x], st.headers) IN IF h < 0 THEN None ELSE VInt(h)
              val == IF N = 1 \/ A(2).t = "none" THEN actual
                     ELSE VBool(actual.t # "none" /\ PyEq(actual, A(2)))
              vote == IF val.t = "none" THEN FALSE ELSE IF val.t = "bool" THEN val.i = 1 ELSE TRUE
          IN R(val, vote, st)
    \* ---- the functions that rewrite or project the line (C06's exception) ------------------------
    [] nm = "replace" ->     \* replace(header, value): the cell is overwritten in place; later components and the caller see it
          LET i == HdrIndex([val |-> A(1)], st.headers)
          IN R(None, D, [st EXCEPT !.line = [j \in 1..Len(st.line) |-> IF j = i + 1 THEN A(2) ELSE st.line[j]]])
    [] nm = "append" ->      \* append(name, value [, name-to-data]): a new last cell on every line it runs on; the header name is
                             \* added once (the first time this component runs, unless a header of that name exists)
          LET first == node.name_q \notin st.appended
              known == \E j \in 1..Len(st.headers) : st.headers[j] = A(1).s
              hs2 == IF first /\ ~known THEN Append(st.headers, A(1).s) ELSE st.headers
              nameToData == first /\ ~known /\ N = 3 /\ A(3) = VBool(TRUE)
              cell == IF nameToData THEN A(1) ELSE A(2)
          IN R(None, D, [st EXCEPT !.line = Append(st.line, cell), !.headers = hs2, !.appended = @ \cup {node.name_q}])
    [] nm = "collect" ->     \* collect(h, ...): from now on the caller receives only these cells, in this order
          R(None, D, [st EXCEPT !.limit = [j \in 1..N |-> HdrIndex([val |-> A(j)], st.headers)]])
    [] nm = "strip"  -> R(VStr(Strip(StrOf(A(1)))), D, st)
    [] nm = "mod"    -> IF NumOf(A(2)) = 0 THEN Unwound(Raise(st))            \* ZeroDivisionError
                        ELSE R(VFloat(NumOf(A(1)) % NumOf(A(2))), D, st)
    [] nm = "int"    -> R(IF A(1).t = "none" THEN None ELSE VInt(NumOf(A(1))), D, st)
    [] nm = "firstscan" -> R(VBool(st.scanCount = 1), st.scanCount = 1, st)
    \* firstline(): the most recent record with data is record 0 (so it also holds on a blank final record right after it)
    [] nm = "firstline" -> R(VBool(ctx.lastDataK = 0), ctx.lastDataK = 0, st)
    [] nm = "concat" -> R(VStr(Strip(Concat(rs))), D, st)
    [] nm = "length" -> LET n == IF Truthy(A(1)) THEN Len(StrOf(A(1))) ELSE 0 IN R(VInt(n), n > 0, st)
    [] nm = "lower"  -> R(VStr(Strip(Lower(StrOf(A(1))))), D, st)
    [] nm = "upper"  -> R(VStr(Strip(Upper(StrOf(A(1))))), TRUE, st)
    [] nm = "starts_with" -> LET b == IsPrefixT(Strip(StrOf(A(2))), Strip(StrOf(A(1)))) IN R(VBool(b), b, st)
    [] nm = "substring" -> LET s == StrOf(A(1))
                               n == A(2).i
                           IN R(VStr(Strip(IF n >= Len(s) THEN s ELSE SubSeq(s, 1, n))), D, st)
    [] nm = "add"      -> R(VFloat(SumNums(rs)), D, st)
    [] nm \in {"subtract", "minus"} ->
          IF N = 1 THEN R(VInt(0 - A(1).i), D, st)
          ELSE R(VFloat(SubNums(NumOf(A(1)), Tail(rs))), D, st)
    [] nm = "multiply" -> R(VFloat(MulNums(NumOf(A(1)), Tail(rs))), D, st)
    [] nm = "sum" ->
          LET v == vname("sum")
              cur == IF HasVar(st.vars, v) THEN GetVar(st.vars, v) ELSE VInt(0)
              new == IF IsNone(A(1)) THEN cur ELSE VFloat(cur.i + NumOf(A(1)))
          IN R(new, D, [st EXCEPT !.vars = SetVar(st.vars, v, new)])
    [] nm = "subtotal" ->
          LET v == vname("subtotal")
              c == GetTracked(st.vars, v, A(1))
              cur == IF c.t = "none" THEN 0 ELSE c.i
              new == VFloat(cur + NumOf(A(2)))
          IN R(new, D, [st EXCEPT !.vars = SetTracked(st.vars, v, A(1), new)])
    [] nm = "count" ->
          IF N = 0 THEN R(VInt(st.matchCount + 1), D, st)
          ELSE LET v == node.name_q
                   \* the count is kept per value of the argument; a None value has no key: the count is the plain variable
                   plain == A(1).t = "none"
                   c == IF plain THEN GetVar(st.vars, v) ELSE GetTracked(st.vars, v, A(1))
                   cur == IF c.t = "none" THEN 0 ELSE c.i
                   bump == ~Has(node, "onmatch") \/ rs[1].vote
                   new == IF bump THEN cur + 1 ELSE cur
               IN R(VInt(new), D, [st EXCEPT !.vars = IF plain THEN SetVar(st.vars, v, VInt(new))
                                                       ELSE SetTracked(st.vars, v, A(1), VInt(new))])
    \* pure value producers: they have no vote of their own (matches() answers None, i.e. negative);
    \* the generators use them in value position only
    [] nm = "count_lines"  -> R(VInt(ctx.dataCount), FALSE, st)
    [] nm = "line_number"  -> R(VInt(ctx.k), FALSE, st)
    [] nm = "count_scans"  -> R(VInt(st.scanCount), FALSE, st)
    [] nm = "total_lines"  -> R(VInt(ctx.totalData), FALSE, st)
    [] nm = "has_matches"  -> R(VBool(TRUE), TRUE, st)
    [] nm = "counter" ->
          LET v == node.name_q
              cur == GetVar(st.vars, v)
              inc == IF N = 0 THEN 1 ELSE NumOf(A(1))
              new == VInt((IF cur.t = "none" THEN 0 ELSE cur.i) + inc)
          IN R(new, D, [st EXCEPT !.vars = SetVar(st.vars, v, new)])
    [] nm = "tally" ->
          LET base == vname("tally")
              \* one dictionary per argument, named <base>_<argument name>
              step(vars, j) == TallyStore(vars, base \o "_" \o node.args[j].name, A(j), 0)
              v1 == IF N >= 1 THEN step(st.vars, 1) ELSE st.vars
              v2 == IF N >= 2 THEN step(v1, 2) ELSE v1
          IN R(VBool(TRUE), TRUE, [st EXCEPT !.vars = v2])
    [] nm = "first" ->
          LET v == vname("first")
              key == VStr(Strip(StrOf(A(1))))
              seen == GetTracked(st.vars, v, key)
          IN IF seen.t = "none"
               THEN R(None, TRUE, [st EXCEPT !.vars = SetTracked(st.vars, v, key, VInt(ctx.k))])
               ELSE R(seen, FALSE, st)
    [] nm \in {"push", "push_distinct"} ->
          LET v == node.args[1].name_q       \* the stack's name: a string term (rendered from name_q)
              cur == GetVar(st.vars, v)
              xs == IF cur.t = "list" THEN cur.items ELSE <<>>
              distinct == nm = "push_distinct" \/ Has(node, "distinct")
              skipIt == (distinct /\ ListHas(xs, A(2))) \/ (Has(node, "notnone") /\ IsEmpty(A(2)))
              new == IF skipIt THEN xs ELSE Append(xs, A(2))
          IN R(None, D, [st EXCEPT !.vars = SetVar(st.vars, v, VList(new))])
    [] nm = "pop" ->
          LET v == node.args[1].name_q
              cur == GetVar(st.vars, v)
              xs == IF cur.t = "list" THEN cur.items ELSE <<>>
              keep == IF "PopDropsTwo" \in Dev THEN Len(xs) - 2 ELSE Len(xs) - 1
          IN IF xs = <<>> THEN R(None, D, [st EXCEPT !.vars = SetVar(st.vars, v, VList(<<>>))])
             ELSE R(xs[Len(xs)], D,
                    [st EXCEPT !.vars = SetVar(st.vars, v, VList(SubSeq(xs, 1, IF keep < 0 THEN 0 ELSE keep)))])
    [] nm \in {"size", "peek_size"} ->
          LET v == node.args[1].name_q
              cur == GetVar(st.vars, v)
              xs == IF cur.t = "list" THEN cur.items ELSE <<>>
          IN R(VInt(Len(xs)), D, [st EXCEPT !.vars = SetVar(st.vars, v, VList(xs))])
    [] nm = "every" ->       \* every.name(x, n): counts sightings per value of x; matches every n-th sighting
          LET v == node.name_q
              c == GetTracked(st.vars, v, A(1))
              new == (IF c.t = "none" THEN 0 ELSE c.i) + 1
              m == new % A(2).i
          IN R(VInt(m), m = 0, [st EXCEPT !.vars = SetTracked(st.vars, v, A(1), VInt(new))])
    [] nm = "get" ->         \* get(name [, key | index])
          LET v == GetVar(st.vars, node.args[1].name_q)
              r == IF v.t = "none" THEN None
                   ELSE IF N = 1 THEN v
                   ELSE IF v.t = "list" /\ A(2).t = "int"
                          THEN (IF A(2).i >= 0 /\ A(2).i < Len(v.items) THEN v.items[A(2).i + 1] ELSE None)
                   ELSE IF v.t = "dict" THEN DGet(v, A(2)) ELSE None
          IN R(r, r.t # "none", st)
    [] nm = "put" ->         \* put(name, value) / put(name, key, value); it has no value of its own, hence a negative vote
          LET v == node.args[1].name_q
              vars2 == IF N = 2 THEN SetVar(st.vars, v, A(2)) ELSE SetTracked(st.vars, v, A(2), A(3))
          IN R(None, FALSE, [st EXCEPT !.vars = vars2])
    [] nm = "track" ->       \* track.name(key, value)
          LET v == IF node.name_q = "" THEN "track" ELSE node.name_q
              key == VStr(Strip(StrOf(A(1))))
              val == IF A(2).t = "str" THEN VStr(Strip(A(2).s)) ELSE A(2)
          IN R(None, D, [st EXCEPT !.vars = SetTracked(st.vars, v, key, val)])
    [] nm = "peek" ->
          LET v == node.args[1].name_q
              cur == GetVar(st.vars, v)
              xs == IF cur.t = "list" THEN cur.items ELSE <<>>
              r == IF A(2).i >= 0 /\ A(2).i < Len(xs) THEN xs[A(2).i + 1] ELSE None
          IN R(r, D, [st EXCEPT !.vars = SetVar(st.vars, v, VList(xs))])
    \* stop_all / skip_all / advance_all / fail_all also signal the CsvPaths instance that runs the group (Group.tla);
    \* on the csvpath that executes them they are stop / skip / advance / fail
    [] nm \in {"stop", "fail_and_stop", "stop_all"} ->
          LET fire == N = 0 \/ rs[1].vote
              st0s == IF fire /\ nm = "stop_all" THEN [st EXCEPT !.sig.stop = TRUE] ELSE st
              st1 == IF fire THEN [st0s EXCEPT !.stopped = TRUE] ELSE st0s
              st2 == IF fire /\ nm = "fail_and_stop" THEN [st1 EXCEPT !.valid = FALSE] ELSE st1
          IN R(None, D, st2)
    [] nm \in {"skip", "skip_all"} ->
          LET fire == N = 0 \/ rs[1].vote
              st1 == IF fire /\ nm = "skip_all" THEN [st EXCEPT !.sig.skip = TRUE] ELSE st
          IN R(None, D, IF fire THEN [st1 EXCEPT !.skip = TRUE] ELSE st1)
    [] nm = "advance"     -> R(None, D, [st EXCEPT !.advance = A(1).i])
    [] nm = "advance_all" -> R(None, D, [st EXCEPT !.advance = A(1).i, !.sig.adv = A(1).i])
    [] nm = "fail"        -> R(VBool(D), D, [st EXCEPT !.valid = FALSE])
    [] nm = "fail_all"    -> R(VBool(D), D, [st EXCEPT !.valid = FALSE, !.sig.fail = TRUE])
    [] nm = "failed"  -> R(VBool(~st.valid), ~st.valid, st)
    [] nm = "valid"   -> R(VBool(st.valid), st.valid, st)
    [] nm = "last"    -> LET b == ctx.k = ctx.endNum \/ ctx.lastScan
                         IN IF b /\ Len(node.args) = 1
                              THEN LET a == Ev(node.args[1], st, ctx) IN IF a.st.unwind THEN Unwound(a.st) ELSE R(VBool(b), b, a.st)
                              ELSE R(VBool(b), b, st)
    [] nm = "print"   ->
          \* qualifiers: once (at most one execution per run; its marker is a hash-named variable,
          \* modelled here by st.onceDone), onmatch handled above
          LET env == [vars |-> st.vars, line |-> TextsOf(st.line), headers |-> st.headers, meta |-> ctx.meta, k |-> ctx.k,
                      matchCount |-> st.matchCount, scanCount |-> st.scanCount, totalData |-> ctx.totalData,
                      valid |-> st.valid, stopped |-> st.stopped]
              body == IF node.tmpl = <<>> THEN A(1).s ELSE Emitted(node.tmpl, env)
              \* print(text, "name") sends the entry to the named printout stream (shown as "[name] text" by the standard-out
              \* printer); print(text, f()) runs f after the entry was printed
              out == IF N = 2 THEN <<91>> \o A(2).s \o <<93, 32>> \o body ELSE body
              follow == Len(node.args) = 2 /\ node.args[2].k # "term"
              blocked == Has(node, "once") /\ node.name_q \in st.onceDone
          IN IF blocked THEN R(None, D, st)
             ELSE LET st1 == [st EXCEPT !.printed = Append(st.printed, out),
                                        !.onceDone = IF Has(node, "once") THEN @ \cup {node.name_q} ELSE @]
                  IN IF follow THEN LET f == Ev(node.args[2], st1, ctx) IN (IF f.st.unwind THEN Unwound(f.st) ELSE R(None, D, f.st))
                     ELSE R(None, D, st1)
    [] OTHER -> R(None, D, st)

\* ---- nodes ---------------------------------------------------------------------------------------
Ev(node, st, ctx) == IF st.unwind THEN Unwound(st) ELSE Ev0(node, st, ctx)
Ev0(node, st, ctx) ==
  CASE node.k = "term" -> R(node.val, TRUE, st)
    [] node.k = "hdr" ->
         LET raw == HdrRaw(node, st)
         IN IF Has(node, "asbool") THEN R(VBool(AsBool(raw)), AsBool(raw), st)
            ELSE R(raw, ~IsNone(raw), st)
    [] node.k = "var" ->
         LET v == IF node.track.t = "none" THEN GetVar(st.vars, node.name)
                  ELSE GetTracked(st.vars, node.name, node.track)
         IN IF Has(node, "asbool") THEN R(v, AsBool(v), st) ELSE R(v, v.t # "none", st)
    [] node.k = "eq" ->
         LET l == Ev(node.args[1], st, ctx)
             r == Ev(node.args[2], l.st, ctx)
             b == LangEq(l.val, r.val)
         IN IF r.st.unwind THEN Unwound(r.st) ELSE R(VBool(b), b, r.st)
    [] node.k = "when" ->
         LET l == Ev(node.args[1], st, ctx)
             nc == LeftNoContrib(node.args[1])
         IN IF l.st.unwind THEN Unwound(l.st)
            ELSE IF l.vote
              THEN LET r == Ev(node.args[2], l.st, ctx)
                       b == IF ~ctx.AND /\ nc THEN FALSE ELSE TRUE
                   IN IF r.st.unwind THEN Unwound(r.st) ELSE R(VBool(b), b, r.st)
              ELSE LET b == IF ~ctx.AND /\ nc THEN FALSE ELSE nc
                   IN R(VBool(b), b, l.st)
    [] node.k = "assign" ->
         LET var == node.args[1]
             rhs == Ev(node.args[2], st, ctx)
             y == rhs.val
             Q == QSet(var) \cup (IF node.args[2].k = "fn" /\ node.args[2].name \in {"count", "has_matches"}
                                      /\ node.args[2].args = <<>> THEN {"onmatch"} ELSE {})
             cur == IF var.track.t = "none" THEN GetVar(rhs.st.vars, var.name)
                    ELSE GetTracked(rhs.st.vars, var.name, var.track)
             la == IF NeedsRest(Q) THEN LA(1, rhs.st, ctx) ELSE [ok |-> TRUE, st |-> rhs.st]
             d == Decide(Q, cur, y, la.ok, ctx.AND)
             vars2 == IF ~d.write THEN la.st.vars
                      ELSE IF var.track.t = "none" THEN SetVar(la.st.vars, var.name, y)
                      ELSE SetTracked(la.st.vars, var.name, var.track, y)
         IN IF rhs.st.unwind THEN Unwound(rhs.st) ELSE R(VBool(d.vote), d.vote, [la.st EXCEPT !.vars = vars2])
    [] node.k = "fn" -> EvFn(node, st, ctx)
    \* an error-provoking component (rendered add(#c, 1)): a numeric function over a cell that need not be a number. On a
    \* numeric or absent cell it is add(); otherwise its argument validation fails: the component votes negative, nothing else
    \* happens now, and one error is pending until the line has been evaluated (Matcher.clear_errors, see Flush)
    [] node.k = "err" ->
         LET v == HdrRaw(node.args[1], st)
         IN IF IsNone(v) \/ NumLike(v) THEN R(VFloat(NumOf(v) + 1), ctx.AND, st)
            \* validation-mode: match turns this one kind of error into a positive vote (ErrorPolicy!ErrLineMatches)
            \* with validation-mode: match (and no raise) the mismatch is recorded without an exception: the function votes
            \* positive, and validation-mode: stop / fail act at once (Function.matches), before the handler sees the error
            ELSE LET now == MatchOnMismatch(ctx)
                 IN R(None, MatchOnMismatch(ctx),
                      [st EXCEPT !.pending = @ + 1,
                                 !.stopped = @ \/ (now /\ VmSays(ctx, "stop")),
                                 !.valid = IF now /\ VmSays(ctx, "fail") THEN FALSE ELSE @])
    [] OTHER -> R(None, TRUE, st)

\* ---- Matcher.matches: fold the component votes left to right --------------------------------------
RECURSIVE Fold(_, _, _, _)
\* failed: AND mode starts not-failed and any False fails; OR mode starts failed and any True rescues
Fold(i, failed, st, ctx) ==
  IF i > Len(ctx.comps)
    THEN \* skip() fired in the final component: the line does not match, the next line starts clean
         IF st.skip THEN [matched |-> FALSE, st |-> [st EXCEPT !.skip = FALSE], aborted |-> TRUE]
         ELSE [matched |-> ~failed, st |-> st, aborted |-> FALSE]
  ELSE IF st.stopped THEN [matched |-> FALSE, st |-> st, aborted |-> TRUE]
  ELSE IF st.skip THEN [matched |-> FALSE, st |-> [st EXCEPT !.skip = FALSE], aborted |-> TRUE]
  ELSE IF st.memo[i] # "n"
    THEN LET v == st.memo[i] = "t"
         IN Fold(i + 1, IF ctx.AND THEN failed \/ ~v ELSE failed /\ ~v, st, ctx)
  ELSE LET r == EvComp(ctx.comps[i], [st EXCEPT !.cur = i], ctx)
           st2 == [r.st EXCEPT !.memo[i] = IF r.vote THEN "t" ELSE "f"]
       IN Fold(i + 1, IF ctx.AND THEN failed \/ ~r.vote ELSE failed /\ ~r.vote, st2, ctx)

\* Matcher._do_lasts: when the file ends in a blank record only the last() components run
\* (bare, or left of '->' whose action then runs unfrozen); nothing is returned.
IsLastComp(c) == \/ (c.k = "fn" /\ c.name = "last")
                 \/ (c.k = "when" /\ c.args[1].k = "fn" /\ c.args[1].name = "last")
RECURSIVE DoLasts(_, _, _)
DoLasts(i, st, ctx) ==
  IF i > Len(ctx.comps) THEN st
  ELSE IF IsLastComp(ctx.comps[i])
    THEN DoLasts(i + 1, EvComp(ctx.comps[i], [st EXCEPT !.cur = i], ctx).st, ctx)
    ELSE DoLasts(i + 1, st, ctx)

\* Matcher.clear_errors: when the line has been evaluated (on every way out of Matcher.matches) the pending errors are handed to
\* the error handler in component order, under the effective policy (ErrorPolicy!HandleN: stop, collect, fail, print, raise)
Flush(res, ctx) ==
  IF res.st.pending = 0 THEN res
  ELSE LET h0 == [stopped |-> res.st.stopped, errors |-> res.st.errors, valid |-> res.st.valid, printed |-> <<>>, raised |-> FALSE]
           h == HandleN(ctx.policy, ctx.vm, h0, ctx.k, res.st.pending)
       IN [res EXCEPT !.st = [res.st EXCEPT !.stopped = h.stopped, !.errors = h.errors, !.valid = h.valid, !.raised = h.raised,
                                            !.errPrinted = @ + (IF h.printed # <<>> THEN 1 ELSE 0), !.pending = 0]]

MatchLine(st, ctx) ==
  Flush(Fold(1, ~ctx.AND, [st EXCEPT !.memo = [j \in 1..Len(ctx.comps) |-> "n"], !.cur = 0], ctx), ctx)
=============================================================================
