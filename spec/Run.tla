-------------------------------- MODULE Run --------------------------------
(***************************************************************************)
(* The single-csvpath run machine: CsvPath.next() / _consider_line /       *)
(* Matcher.matches / finalize  (csvpath/csvpath.py:898-1164).              *)
(*                                                                         *)
(* A case is  [prog, file, cfg]:                                           *)
(*   prog [scan, comps]            scan AST (Scan.tla), component ASTs     *)
(*   file sequence of records; a record is a sequence of texts; <<>> blank *)
(*   cfg  [AND, noMatches, keepUnmatched, collecting, noRun, nexts]        *)
(* The machine state S:                                                    *)
(*   [st, returned, unmatched, k, pc]                                      *)
(*   st as in Eval.tla; returned/unmatched: record indices in order        *)
(*   pc  "iter" (before considering record k) | "done"                     *)
(* One action, ConsiderLine, per pass through the loop body of next().     *)
(***************************************************************************)
EXTENDS Eval, Scan

\* ---- the line monitor (csvpath/util/line_monitor.py), computed from the file ---------------------
RECURSIVE CountData(_, _)
CountData(file, upto) ==   \* number of non-blank records among records 0..upto
  IF upto < 0 THEN 0 ELSE CountData(file, upto - 1) + (IF file[upto + 1] = <<>> THEN 0 ELSE 1)

\* LineMonitor reports -1 (not 0) while no data record has been seen yet (IMPL; only observable from a
\* last() action fired on a blank final record of a file without data)
LmCount(c) == IF c = 0 THEN -1 ELSE c

FirstData(file) == IF \E j \in 1..Len(file) : file[j] # <<>>
                     THEN file[CHOOSE j \in 1..Len(file) : file[j] # <<>> /\ \A m \in 1..(j-1) : file[m] = <<>>]
                     ELSE <<>>
\* LineCounter.clean_headers: strip, then remove ; , | tab `
CleanChars == {59, 44, 124, 9, 96}
CleanHeader(s) == SelectSeq(Strip(s), LAMBDA c : c \notin CleanChars)
HeadersOf(file) == LET h == FirstData(file) IN [j \in 1..Len(h) |-> CleanHeader(h[j])]

InitSt == [vars |-> <<>>, stopped |-> FALSE, skip |-> FALSE, advance |-> 0, valid |-> TRUE,
           matchCount |-> 0, curMatch |-> 0, scanCount |-> 0, printed |-> <<>>, frozen |-> FALSE,
           memo |-> <<>>, cur |-> 0, built |-> FALSE, onceDone |-> {},
           line |-> <<>>, headers |-> <<>>, limit |-> <<>>, appended |-> {}, sig |-> NoSig,
           errors |-> <<>>, errPrinted |-> 0, pending |-> 0, raised |-> FALSE, unwind |-> FALSE]
\* The Matcher is built (and the match part validated) the first time a line reaches matches();
\* counter.name() initialises its variable to 0 at that point (Counter.check_valid).
RECURSIVE SetIfNone(_, _)
SetIfNone(vars, inits) == IF inits = <<>> THEN vars
                          ELSE SetIfNone(IF HasVar(vars, Head(inits).n) THEN vars
                                         ELSE SetVar(vars, Head(inits).n, Head(inits).v), Tail(inits))
Build(case, st) == IF st.built THEN st
                   ELSE [st EXCEPT !.built = TRUE, !.vars = SetIfNone(st.vars, case.prog.initVars)]
InitS(case) == [st |-> [InitSt EXCEPT !.headers = HeadersOf(case.file)], returned |-> <<>>, unmatched |-> <<>>, lines |-> <<>>,
                k |-> 0, pc |-> IF case.cfg.noRun \/ Len(case.file) = 0 THEN "done" ELSE "iter",
                kind |-> "init"]

Ctx(case, k) ==
  LET file == case.file N == Len(file) IN
  [line |-> file[k + 1], headers |-> HeadersOf(file), k |-> k,
   dataCount |-> LmCount(CountData(file, k)), endNum |-> N - 1,
   lastScan |-> IsLastScanLine(case.prog.scan, k, N),
   \* the number of the most recent record with data (LineMonitor.data_line_number; -1 before the first)
   lastDataK |-> LET D == {j \in 0..k : file[j + 1] # <<>>} IN IF D = {} THEN -1 ELSE CHOOSE j \in D : \A x \in D : x <= j,
   totalData |-> LmCount(CountData(file, N - 1)), AND |-> case.cfg.AND, comps |-> case.prog.comps,
   meta |-> case.prog.meta,
   \* the error policy of the configuration and the csvpath's validation-mode overrides (default: the scratch configuration)
   policy |-> IF "policy" \in DOMAIN case.cfg THEN {case.cfg.policy[j] : j \in 1..Len(case.cfg.policy)} ELSE {"collect", "print"},
   vm |-> IF "vm" \in DOMAIN case.cfg THEN case.cfg.vm ELSE <<>>]

\* _consider_line: returns [st, ret] where ret is what next() uses to decide to yield
Consider(case, st, k) ==
  LET file == case.file  N == Len(file)  line == file[k + 1]  ctx == Ctx(case, k) IN
  IF k = N - 1 /\ line = <<>> THEN \* the path is frozen first, so a Matcher built only now cannot initialise variables any more
       \* ... and this way out of Matcher.matches hands the pending errors to the handler like every other (Eval!Flush)
       [st |-> Flush([matched |-> FALSE,
                      st |-> DoLasts(1, [st EXCEPT !.frozen = TRUE, !.built = TRUE, !.line = <<>>,
                                                   !.memo = [j \in 1..Len(ctx.comps) |-> "n"]], ctx)], ctx).st,
        ret |-> FALSE, kind |-> "blanklast"]
  ELSE IF line = <<>> THEN [st |-> st, ret |-> FALSE, kind |-> "blank"]
  ELSE IF ~In(case.prog.scan, k) THEN [st |-> st, ret |-> FALSE, kind |-> "unscanned"]
  ELSE
    LET st1 == [st EXCEPT !.scanCount = st.scanCount + 1, !.curMatch = st.matchCount, !.line = LineOf(line)]
        m == IF st1.advance > 0
               THEN [matched |-> FALSE, st |-> [st1 EXCEPT !.advance = st1.advance - 1]]
               ELSE MatchLine(Build(case, st1), ctx)
        \* an error handed to the caller (policy 'raise') leaves _consider_line at once
        st2 == IF ctx.lastScan /\ ~m.st.raised THEN [m.st EXCEPT !.stopped = TRUE] ELSE m.st
        st3 == IF m.matched /\ ~m.st.raised THEN RaiseMatch(st2) ELSE st2
    IN [st |-> st3, ret |-> (~m.st.raised /\ (m.matched # case.cfg.noMatches)),
        kind |-> IF st1.advance > 0 THEN "advance" ELSE "match"]

\* one pass through the loop body of next(), including what collect() does with the result
Step(case, S) ==
  LET c == Consider(case, S.st, S.k)
      ret2 == c.ret
      returned2 == IF ret2 THEN Append(S.returned, S.k) ELSE S.returned
      \* the line handed to the caller: the record as the match part left it, projected by collect()
      lines2 == IF ret2 THEN Append(S.lines, TextsOf(Limited(c.st))) ELSE S.lines
      unmatched2 == IF ~ret2 /\ case.cfg.collecting /\ case.cfg.keepUnmatched
                      THEN Append(S.unmatched, S.k) ELSE S.unmatched
      early == case.cfg.nexts > 0 /\ Len(returned2) = case.cfg.nexts /\ ret2   \* collect(nexts=n) breaks
      fin == c.st.stopped \/ c.st.raised \/ S.k + 1 = Len(case.file)
      \* finalize() freezes the path unless the generator was abandoned by collect(nexts=n)
      st2 == IF fin /\ ~early THEN [c.st EXCEPT !.frozen = TRUE] ELSE c.st
  IN [st |-> st2, returned |-> returned2, unmatched |-> unmatched2, lines |-> lines2, k |-> S.k + 1,
      pc |-> IF fin \/ early THEN "done" ELSE "iter", kind |-> c.kind]

\* ---- comparing a recorded _consider_line event with a specified step (RunTrace, GroupRun) -----------
MemoOf(st) == st.memo
\* the fields of one event, in the order they are compared
Diff(E, ev, before) ==
  IF ev.k # before.k THEN "k"
  ELSE IF (ev.exc # "") # E.st.raised THEN "raised:" \o ev.exc
  ELSE IF ev.ret # (Len(E.returned) > Len(before.returned)) THEN "returned"
  ELSE IF ev.scan_count # E.st.scanCount THEN "scan_count"
  ELSE IF ev.match_count # E.st.matchCount THEN "match_count"
  ELSE IF ev.stopped # E.st.stopped THEN "stopped"
  ELSE IF ev.advance # E.st.advance THEN "advance"
  ELSE IF ev.valid # E.st.valid THEN "valid"
  ELSE IF E.kind = "match" /\ ev.votes # MemoOf(E.st) THEN "votes"
  ELSE IF ~VarsEq(ev.vars, NormVars(E.st.vars)) THEN "vars"
  ELSE IF ev.printed # E.st.printed THEN "printed"
  ELSE IF ev.nerrors # Len(E.st.errors) THEN "errors"
  ELSE IF ev.errlines # <<>> /\ ev.errlines # E.st.errors THEN "errors"       \* each record carries the number of its line
  ELSE IF ev.errcalls # E.st.errPrinted THEN "errors_printed"
  ELSE "ok"

\* what the specification expected for the field that differs (for the replay file)
Expected(E, f) ==
  CASE f = "vars" -> NormVars(E.st.vars)
    [] f = "votes" -> MemoOf(E.st)
    [] f = "printed" -> E.st.printed
    [] f = "returned" -> <<E.returned>>
    [] OTHER -> <<E.st.scanCount, E.st.matchCount, E.st.stopped, E.st.advance, E.st.valid>>

\* ---- properties over a whole behaviour are stated in MC_Run / RunTrace ------------------------------
Increasing(s) == \A i \in 1..(Len(s) - 1) : s[i] < s[i + 1]
=============================================================================
