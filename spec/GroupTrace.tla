----------------------------- MODULE GroupTrace -----------------------------
(***************************************************************************)
(* Validation of recorded named-paths schedules against Group.tla:         *)
(* each line of the batch (env TRACE_FILE) is one run                      *)
(*   [tid, M, N, kind ("serial"|"byline"), allAgree, sched, yielded]       *)
(* sched[i] = [m, k, ret] is the i-th _consider_line call in global order  *)
(* (member index 1..M, record index k, the member's decision).             *)
(* Every event must be a step the corresponding schedule allows, every     *)
(* member must see the records 0,1,2.. in order without gaps, and for a    *)
(* breadth-first run the lines handed to the caller must be exactly those  *)
(* the yield rule names.                                                   *)
(***************************************************************************)
EXTENDS Naturals, Sequences, FiniteSets, TLC, Json, IOUtils

Traces == ndJsonDeserialize(IOEnv.TRACE_FILE)

VARIABLES tid, seen, pos, verdict
gvars == <<tid, seen, pos, verdict>>
Case == Traces[tid]
Sched == Case.sched
Mem == 1..Case.M

Init == /\ tid \in 1..Len(Traces)
        /\ seen = [m \in 1..Traces[tid].M |-> 0]
        /\ pos = 1 /\ verdict = "run"

\* how many events member m has in the whole schedule = the number of records it consumed
Total(m) == Cardinality({i \in 1..Len(Sched) : Sched[i].m = m})
DoneNow(m) == seen[m] >= Total(m)

Allowed(ev) ==
  IF Case.kind = "serial"
    THEN \A x \in Mem : x < ev.m => DoneNow(x)                     \* Group!SerialStep
    ELSE \A x \in Mem : ~DoneNow(x) =>                              \* Group!ByLineStep (kind byline / byline_noyield)
            (seen[ev.m] < seen[x] \/ (seen[ev.m] = seen[x] /\ ev.m <= x))

Step ==
  /\ verdict = "run" /\ pos <= Len(Sched)
  /\ LET ev == Sched[pos] IN
       IF ev.k # seen[ev.m] THEN verdict' = "member_order" /\ UNCHANGED <<seen, pos>>
       ELSE IF ~Allowed(ev) THEN verdict' = "schedule" /\ UNCHANGED <<seen, pos>>
       ELSE seen' = [seen EXCEPT ![ev.m] = @ + 1] /\ pos' = pos + 1 /\ UNCHANGED verdict
  /\ UNCHANGED tid

\* ---- the yield rule (Group!Keep) over the recorded decisions -------------------------------------
RetOf(m, k) == LET i == CHOOSE i \in 1..Len(Sched) : Sched[i].m = m /\ Sched[i].k = k IN Sched[i].ret
ActiveAt(k) == {m \in Mem : k < Total(m)}
Keep(k) == IF Case.allAgree THEN \A m \in ActiveAt(k) : RetOf(m, k) ELSE \E m \in ActiveAt(k) : RetOf(m, k)
MaxTotal == IF Mem = {} THEN 0 ELSE CHOOSE s \in {Total(m) : m \in Mem} : \A m \in Mem : Total(m) <= s
ExpectedYield == SelectSeq([i \in 1..MaxTotal |-> i - 1], LAMBDA k : Keep(k))

Finish ==
  /\ verdict = "run" /\ pos = Len(Sched) + 1
  /\ verdict' = IF Case.kind = "byline" /\ Case.yielded # ExpectedYield THEN "yield" ELSE "ok"
  /\ UNCHANGED <<tid, seen, pos>>

Next == Step \/ Finish
Spec == Init /\ [][Next]_gvars

Emit == verdict # "run" =>
   PrintT(<<"V", ToJson([tid |-> Case.tid, verdict |-> verdict, at |-> pos,
                         expected |-> IF verdict = "yield" THEN ExpectedYield ELSE <<>>])>>)
=============================================================================
