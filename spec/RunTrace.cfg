CONSTANT Dev = {}
SPECIFICATION TraceSpec
INVARIANT ReturnedOnceInOrder
INVARIANT MatchLeScan
INVARIANT StoppedIsFinal
INVARIANT Partition
INVARIANT Emit
PROPERTY ValidityMonotone
PROPERTY CountsMonotone
PROPERTY NothingAfterStop
PROPERTY AdvanceInert
PROPERTY UnofferedInert
CHECK_DEADLOCK FALSE
