CONSTANT Dev = {}
SPECIFICATION TraceSpec
INVARIANT ReturnedOnceInOrder
INVARIANT MatchLeScan
INVARIANT Emit
PROPERTY ValidityMonotone
PROPERTY CountsMonotone
PROPERTY NothingAfterStop
CHECK_DEADLOCK FALSE
