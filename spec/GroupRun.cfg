CONSTANT Dev = {}
SPECIFICATION Spec
INVARIANT YieldedInOrder
INVARIANT Emit
PROPERTY GroupValidityMonotone
PROPERTY StopAllIsFinal
PROPERTY CursorMonotone
CHECK_DEADLOCK FALSE
