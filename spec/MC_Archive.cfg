CONSTANTS
  NMem = 3
  Kind = "serial"
  Honours = TRUE
INIT AInit
NEXT ANext
INVARIANT CompleteMeansAllSaved
INVARIANT SaveAfterAdd
INVARIANT AbortLeavesRecords
INVARIANT CancelledIsSuffix
INVARIANT CancelledNeverAdded
INVARIANT EveryRunEnds
PROPERTY AbortedStaysAborted
CHECK_DEADLOCK FALSE
