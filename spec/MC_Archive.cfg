CONSTANTS
  NMem = 3
  Kind = "serial"
INIT AInit
NEXT ANext
INVARIANT CompleteMeansAllSaved
INVARIANT SaveAfterAdd
INVARIANT AbortLeavesRecords
PROPERTY AbortedStaysAborted
CHECK_DEADLOCK FALSE
