CONSTANT MaxItems = 2
INIT Init
NEXT Next
INVARIANT TextOnly
INVARIANT NothingLost
CHECK_DEADLOCK FALSE
