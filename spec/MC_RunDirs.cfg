CONSTANTS
  Groups = {"ga", "gb"}
  Methods = {"collect_paths", "collect_by_line"}
  MaxLen = 2
  Start = 46795
  MoveSet = {"same", "plus1", "to13", "midnight"}
INIT Init
NEXT Next
INVARIANT FreshDir
INVARIANT DenseIdx
INVARIANT Chronological
INVARIANT LastIsNewest
PROPERTY EarlierUntouched
CHECK_DEADLOCK FALSE
