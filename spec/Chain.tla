-------------------------------- MODULE Chain --------------------------------
(***************************************************************************)
(* Data and values flowing between csvpaths (C20): source-mode preceding   *)
(* chains and references to the results of another group                   *)
(* (csvpath/csvpaths.py _load_csvpath, matching/productions/reference.py,  *)
(* managers/results/results_manager.py).                                   *)
(*                                                                         *)
(* A stage is abstract here: keep[m] is the set of records (by value) the  *)
(* m-th csvpath returns when it is shown them.  Input(m) is the original   *)
(* file unless stage m declares source-mode preceding, in which case it is *)
(* exactly what stage m-1 collected.                                       *)
(***************************************************************************)
EXTENDS Naturals, Sequences, FiniteSets, TLC
INSTANCE Values

CONSTANTS NStages, NRecs
Recs == [i \in 1..NRecs |-> i]    \* the records of the file, a sequence of distinct abstract values

VARIABLES keep, prec, m, collected
cvars == <<keep, prec, m, collected>>
Stages == 1..NStages
RecSet == {Recs[i] : i \in 1..Len(Recs)}

Init == /\ keep \in [Stages -> SUBSET RecSet]
        /\ prec \in [Stages -> BOOLEAN] /\ prec[1] = FALSE
        /\ m = 1 /\ collected = <<>>

Filter(s, K) == SelectSeq(s, LAMBDA r : r \in K)
Input(i) == IF prec[i] /\ i > 1 THEN collected[i - 1] ELSE Recs
RunStage == /\ m <= NStages
            /\ collected' = Append(collected, Filter(Input(m), keep[m]))
            /\ m' = m + 1 /\ UNCHANGED <<keep, prec>>
Next == RunStage
Spec == Init /\ [][Next]_cvars

\* chain == composition of its stages: a maximal run of preceding stages ending at i collects what the
\* conjunction of their filters keeps from the input of the first stage of that run
RECURSIVE ChainStart(_)
ChainStart(i) == IF i > 1 /\ prec[i] THEN ChainStart(i - 1) ELSE i
Composition ==
  \A i \in 1..Len(collected) :
     LET s == ChainStart(i)
         K == {r \in RecSet : \A j \in s..i : r \in keep[j]}
     IN collected[i] = Filter(Recs, K)
\* a stage never sees a record its predecessor did not collect
NoLeak == \A i \in 2..Len(collected) : prec[i] =>
             {collected[i][j] : j \in 1..Len(collected[i])} \subseteq {collected[i-1][j] : j \in 1..Len(collected[i-1])}

\* ---- references: what $name.variables.v[.key] and $name.headers.h evaluate to ------------------
\* vars: final variables of the referenced member's most recent run (sequence of [n, v]);
\* lines: the lines it collected (sequence of sequences of text); headers: its header names.
RefVariable(vars, name, key) ==
  LET v == GetVar(vars, name) IN
    IF key = "" THEN v
    ELSE IF v.t = "dict" /\ DHas(v, VStr(<<>>)) THEN None ELSE None   \* refined in ChainTrace (string keys)
HeaderIdx(headers, h) == IF \E j \in 1..Len(headers) : headers[j] = h
                           THEN CHOOSE j \in 1..Len(headers) : headers[j] = h /\ \A x \in 1..(j-1) : headers[x] # h
                           ELSE 0
RefHeader(lines, headers, h) ==
  LET i == HeaderIdx(headers, h)
      has == SelectSeq(lines, LAMBDA l : Len(l) >= i)
  IN [j \in 1..Len(has) |-> Strip(has[j][i])]
=============================================================================
