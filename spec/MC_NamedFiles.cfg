CONSTANTS
  Names = {"na", "nb"}
  Srcs = {"s1.csv", "s2.csv"}
  Contents = {1, 2, 3}
  MaxLen = 3
  Race = FALSE
INIT Init
NEXT Next
INVARIANT CurrentOnDisk
INVARIANT ManifestMatchesDisk
INVARIANT NoRepeatEntries
PROPERTY VersionsImmutable
PROPERTY ManifestAppendOnly
PROPERTY SourceEditsInvisible
CHECK_DEADLOCK FALSE
