------------------------------- MODULE SameRun -------------------------------
(***************************************************************************)
(* "The same run" as a relation between recorded executions (C07, C08,     *)
(* C17): one case per line of the batch (env TRACE_FILE)                   *)
(*   [tid, base, others]                                                   *)
(* base and others[j].trace are recorded runs of ONE csvpath over ONE file *)
(* (the event list of RunTrace plus the final state); others[j].rel says   *)
(* how the run must relate to the base run:                                *)
(*   "same"    every _consider_line call leaves the same state, and the    *)
(*             runs end in the same final state (next() vs collect() vs    *)
(*             fast_forward(); a member alone vs in a group; one layout vs *)
(*             another). others[j].lines / .unmatched say whether the      *)
(*             delivered lines / the unmatched lines are comparable (a     *)
(*             method that does not collect has none).                     *)
(*   "prefix"  collect(nexts=n): the run is the base run up to and         *)
(*             including the call that returned the n-th line - nothing    *)
(*             belonging to a later line has happened - or the whole base  *)
(*             run if it returns fewer than n lines.                       *)
(*   "silent"  "same", and the run wrote nothing to standard out (the same   *)
(*             csvpath with print-mode: no-default, C15).                   *)
(* Unlike RunTrace this module does not say what the run should be - only  *)
(* that the runs are one run; what the run should be is C01/C03/C04/C13's  *)
(* business.  Verdicts are total: the first differing field is named.      *)
(***************************************************************************)
EXTENDS Naturals, Sequences, FiniteSets, TLC, Json, IOUtils
INSTANCE Values

Traces == ndJsonDeserialize(IOEnv.TRACE_FILE)

VARIABLES tid, j, verdict, detail
svars == <<tid, j, verdict, detail>>
Case == Traces[tid]

Init == tid \in 1..Len(Traces) /\ j = 1 /\ verdict = "run" /\ detail = <<>>

\* ---- one _consider_line call against another ------------------------------------------------------
EvDiff(a, b) ==
  IF a.k # b.k THEN "k"
  ELSE IF a.exc # b.exc THEN "raised"
  ELSE IF a.ret # b.ret THEN "returned"
  ELSE IF a.scan_count # b.scan_count THEN "scan_count"
  ELSE IF a.match_count # b.match_count THEN "match_count"
  ELSE IF a.stopped # b.stopped THEN "stopped"
  ELSE IF a.advance # b.advance THEN "advance"
  ELSE IF a.valid # b.valid THEN "valid"
  ELSE IF a.votes # b.votes THEN "votes"
  ELSE IF ~VarsEq(a.vars, b.vars) THEN "vars"
  ELSE IF a.printed # b.printed THEN "printed"
  ELSE "ok"

FirstDiff(ea, eb, n) ==
  IF \E i \in 1..n : EvDiff(ea[i], eb[i]) # "ok"
    THEN CHOOSE i \in 1..n : EvDiff(ea[i], eb[i]) # "ok" /\ \A x \in 1..(i - 1) : EvDiff(ea[x], eb[x]) = "ok"
    ELSE 0

FinalDiff(fa, fb, lines, unmatched) ==
  IF fa.raised # fb.raised THEN "final_raised"
  ELSE IF fa.returned # fb.returned THEN "final_returned"
  ELSE IF ~VarsEq(fa.vars, fb.vars) THEN "final_vars"
  ELSE IF fa.valid # fb.valid THEN "final_valid"
  ELSE IF fa.match_count # fb.match_count THEN "final_match_count"
  ELSE IF fa.scan_count # fb.scan_count THEN "final_scan_count"
  ELSE IF fa.printed # fb.printed THEN "final_printed"
  ELSE IF lines /\ fa.lines # fb.lines THEN "final_lines"
  ELSE IF unmatched /\ fa.unmatched # fb.unmatched THEN "final_unmatched"
  ELSE "ok"

\* ---- "same" ---------------------------------------------------------------------------------------
SameDiff(o) ==
  LET ea == Case.base.events  eb == o.trace.events
      n == IF Len(ea) < Len(eb) THEN Len(ea) ELSE Len(eb)
      d == FirstDiff(ea, eb, n)
  IN IF d # 0 THEN <<"event:" \o EvDiff(ea[d], eb[d]), d>>
     ELSE IF Len(ea) # Len(eb) THEN <<"number_of_calls", n + 1>>
     ELSE LET f == FinalDiff(Case.base.final, o.trace.final, o.lines, o.unmatched)
          IN IF f # "ok" THEN <<f, 0>> ELSE <<"ok", 0>>

\* ---- "prefix": collect(nexts = o.n) -----------------------------------------------------------------
\* the index of the call of the base run that returned its n-th line (0 if it returns fewer)
RetCount(ev, i) == Cardinality({x \in 1..i : ev[x].ret})
CutAt(ev, n) == IF \E i \in 1..Len(ev) : ev[i].ret /\ RetCount(ev, i) = n
                  THEN CHOOSE i \in 1..Len(ev) : ev[i].ret /\ RetCount(ev, i) = n
                  ELSE 0
Take(s, n) == IF n >= Len(s) THEN s ELSE SubSeq(s, 1, n)
PrefixDiff(o) ==
  LET ea == Case.base.events  eb == o.trace.events
      cut == CutAt(ea, o.n)
  IN IF cut = 0 THEN SameDiff([o EXCEPT !.lines = TRUE, !.unmatched = FALSE])     \* fewer than n lines: the whole run
     ELSE IF Len(eb) # cut THEN <<"prefix_length", cut>>
     ELSE LET d == FirstDiff(ea, eb, cut) IN
       IF d # 0 THEN <<"event:" \o EvDiff(ea[d], eb[d]), d>>
       ELSE LET last == ea[cut]  f == o.trace.final IN
         \* no side effect of a later line: the final state is the state the base run had after that call
         IF ~VarsEq(f.vars, last.vars) THEN <<"later_side_effect:vars", cut>>
         ELSE IF f.printed # last.printed THEN <<"later_side_effect:printed", cut>>
         ELSE IF f.valid # last.valid THEN <<"later_side_effect:valid", cut>>
         ELSE IF f.match_count # last.match_count \/ f.scan_count # last.scan_count THEN <<"later_side_effect:counts", cut>>
         ELSE IF f.returned # Take(Case.base.final.returned, o.n) THEN <<"prefix_returned", cut>>
         \* (a base run that ended in an exception handed no lines to its caller: there is nothing to take a prefix of)
         ELSE IF Case.base.final.raised = "" /\ f.lines # Take(Case.base.final.lines, o.n) THEN <<"prefix_lines", cut>>
         ELSE <<"ok", 0>>

Step ==
  /\ verdict = "run" /\ j <= Len(Case.others)
  /\ LET o == Case.others[j]
         d0 == IF o.rel = "prefix" THEN PrefixDiff(o) ELSE SameDiff(o)
         d == IF d0[1] = "ok" /\ o.rel = "silent" /\ o.trace.final.stdout # <<>> THEN <<"final_stdout", 0>> ELSE d0
     IN IF d[1] = "ok" THEN j' = j + 1 /\ UNCHANGED <<verdict, detail>>
        ELSE verdict' = d[1] /\ detail' = <<j, d[2]>> /\ UNCHANGED j
  /\ UNCHANGED tid
Finish == verdict = "run" /\ j = Len(Case.others) + 1 /\ verdict' = "ok" /\ UNCHANGED <<tid, j, detail>>
Next == Step \/ Finish
Spec == Init /\ [][Next]_svars

Emit == verdict # "run" =>
          PrintT(<<"V", ToJson([tid |-> Case.tid, verdict |-> verdict, at |-> j, expected |-> detail])>>)
=============================================================================
