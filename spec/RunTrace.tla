------------------------------ MODULE RunTrace ------------------------------
(***************************************************************************)
(* Trace validation for the run machine (direction B, DESIGN 5.3/5.4).     *)
(* The batch file (ndjson, env TRACE_FILE) holds one recorded execution of *)
(* the real CsvPath per line:                                              *)
(*   [tid, prog, file, cfg, events, final]                                 *)
(* events[i] is the projection of the implementation state logged when     *)
(* CsvPath._consider_line returned for the i-th record.  Every event is    *)
(* bound to one Run!Step; every logged field must equal the specified one. *)
(* Verdicts are total: the first differing field is named.                 *)
(***************************************************************************)
EXTENDS Run, Json, IOUtils, TLCExt

Traces == ndJsonDeserialize(IOEnv.TRACE_FILE)

VARIABLES tid, S, i, verdict, detail
tvars == <<tid, S, i, verdict, detail>>

Case == Traces[tid]
Events == Case.events

TraceInit == /\ tid \in 1..Len(Traces)
             /\ S = InitS(Traces[tid])
             /\ i = 1
             /\ verdict = "run"
             /\ detail = <<>>

\* consume one event
TraceStep ==
  /\ verdict = "run" /\ i <= Len(Events)
  /\ IF S.pc = "done"
       THEN /\ verdict' = "extra_event"                 \* the implementation read a record the spec says it must not
            /\ UNCHANGED <<S, i, detail>>
       ELSE LET E == Step(Case, S)
                d == Diff(E, Events[i], S)
            IN IF d = "ok" THEN /\ S' = E /\ i' = i + 1 /\ UNCHANGED <<verdict, detail>>
               ELSE /\ verdict' = d /\ detail' = Expected(E, d) /\ UNCHANGED <<S, i>>
  /\ UNCHANGED tid

\* after the last event: the run must be over, and the run's results must agree
TraceFinish ==
  /\ verdict = "run" /\ i = Len(Events) + 1
  /\ verdict' = IF S.pc # "done" THEN "missing_event"
                ELSE IF (Case.final.raised # "") # S.st.raised THEN "raised:" \o Case.final.raised
                ELSE IF Case.final.nerrors # Len(S.st.errors) THEN "final_errors"
                ELSE IF Case.final.returned # S.returned THEN "final_returned"
                \* C06: what is delivered is the k-th record, cell by cell, and the headers are the
                \* cleaned cells of the first non-blank record
                ELSE IF Case.final.checkLines /\ Case.final.lines # S.lines
                       THEN "final_lines"
                ELSE IF Case.final.checkLines /\ Case.final.headers # S.st.headers THEN "headers"
                ELSE IF Case.final.unmatched # S.unmatched THEN "final_unmatched"
                ELSE IF ~VarsEq(Case.final.vars, NormVars(S.st.vars)) THEN "final_vars"
                ELSE IF Case.final.valid # S.st.valid THEN "final_valid"
                ELSE IF Case.final.match_count # S.st.matchCount THEN "final_match_count"
                ELSE IF Case.final.scan_count # S.st.scanCount THEN "final_scan_count"
                ELSE IF Case.final.printed # S.st.printed THEN "final_printed"
                \* print-mode: no-default removes standard-out printing only (C15)
                ELSE IF Case.final.checkStdout /\ Case.final.stdout # (IF Case.cfg.noDefaultPrint THEN <<>> ELSE S.st.printed)
                       THEN "final_stdout"
                ELSE "ok"
  /\ detail' = IF S.pc = "done" THEN <<S.returned, S.unmatched, NormVars(S.st.vars), S.st.printed>> ELSE <<>>
  /\ UNCHANGED <<tid, S, i>>

TraceNext == TraceStep \/ TraceFinish
TraceSpec == TraceInit /\ [][TraceNext]_tvars

\* ---- run-machine properties, evaluated in every state of every validated trace ------------------
ReturnedOnceInOrder == Increasing(S.returned) /\ Increasing(S.unmatched)
ValidityMonotone == [][S.st.valid' => S.st.valid]_tvars
CountsMonotone == [][S.st.matchCount' >= S.st.matchCount /\ S.st.scanCount' >= S.st.scanCount]_tvars
MatchLeScan == S.st.matchCount <= S.st.scanCount
NothingAfterStop == [][(S.pc = "done") => (S' = S)]_tvars
\* C13: an advanced line passes without matching, counting as a match or causing any side effect
AdvanceInert == [][(S' # S /\ S'.kind = "advance") =>
                     /\ S'.st.vars = S.st.vars /\ S'.st.printed = S.st.printed /\ S'.st.valid = S.st.valid
                     /\ S'.st.matchCount = S.st.matchCount
                     /\ (S'.returned = S.returned \/ Case.cfg.noMatches)   \* not a match: returned only by return-mode no-matches
                     /\ S'.st.advance = S.st.advance - 1 /\ S'.st.scanCount = S.st.scanCount + 1]_tvars
\* C02: a blank or unscanned record changes nothing at all
UnofferedInert == [][(S' # S /\ S'.kind \in {"blank", "unscanned"}) =>
                       /\ [S'.st EXCEPT !.frozen = S.st.frozen] = S.st      \* (the end of the run freezes the path)
                       /\ S'.returned = S.returned]_tvars
\* C13: once stopped, the run is over
StoppedIsFinal == S.st.stopped => S.pc = "done"
\* C15: with unmatched-mode keep while collecting, returned and unmatched partition the records read
Partition == (Case.cfg.collecting /\ Case.cfg.keepUnmatched) =>
               /\ Len(S.returned) + Len(S.unmatched) = S.k
               /\ \A a \in 1..Len(S.returned) : \A b \in 1..Len(S.unmatched) : S.returned[a] # S.unmatched[b]

\* ---- verdict emission --------------------------------------------------------------------------
Emit == verdict # "run" =>
          PrintT(<<"V", ToJson([tid |-> Case.tid, verdict |-> verdict, at |-> i,
                                expected |-> IF verdict = "ok" THEN <<>> ELSE detail])>>)
=============================================================================
