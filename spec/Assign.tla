------------------------------- MODULE Assign -------------------------------
(***************************************************************************)
(* The assignment qualifier decision table  @x.<qualifiers> = y            *)
(* (docs/assignment.md, property C14; code: Equality._do_assignment).      *)
(*                                                                         *)
(* Decide(Q, cur, y, rest, D) = [write, vote]                              *)
(*   Q    set of qualifier names on the variable                           *)
(*   cur  current value of x (Values!None when unset)                      *)
(*   y    the value being assigned                                         *)
(*   rest do all the other match components of the line match?             *)
(*        (only consulted - and only then evaluated - when onmatch \in Q)  *)
(*   D    the default ("positive") vote: TRUE in AND mode, FALSE in OR     *)
(* write: is x set to y;  vote: the assignment's contribution to the line. *)
(*                                                                         *)
(* Order of the decision (the property statement): onmatch gates           *)
(* everything; then latch/onchange decide whether a write is attempted;    *)
(* notnone and increase/decrease can block the write with a negative vote; *)
(* asbool replaces a positive vote by the truth of y; nocontrib makes the  *)
(* vote neutral.                                                           *)
(***************************************************************************)
EXTENDS Values

Keywords == {"onmatch", "onchange", "asbool", "nocontrib", "latch",
             "increase", "decrease", "notnone", "distinct", "once"}

\* ordering used by increase/decrease: Python's on the values that arrive (numbers with numbers,
\* text with text); the generators never mix the two
VLt(a, b) == IF IsNum(a) /\ IsNum(b) THEN a.i < b.i
             ELSE IF a.t = "str" /\ b.t = "str" THEN TextLt(a.s, b.s)
             ELSE FALSE
VLe(a, b) == PyEq(a, b) \/ VLt(a, b)

\* the write itself, guarded by notnone / increase / decrease  (_set_variable_if)
Guarded(Q, cur, y, D) ==
  IF "notnone" \in Q /\ y.t = "none" THEN [write |-> FALSE, vote |-> ~D]
  ELSE IF "increase" \in Q /\ (~Truthy(y) \/ (cur.t # "none" /\ VLe(y, cur)))
         THEN [write |-> FALSE, vote |-> ~D]
  ELSE IF "decrease" \in Q /\ (~Truthy(y) \/ (cur.t # "none" /\ VLe(cur, y)))
         THEN [write |-> FALSE, vote |-> ~D]
  ELSE [write |-> TRUE, vote |-> D]

\* latch / onchange  (_latch_and_onchange)
LatchOnchange(Q, cur, y, D) ==
  IF ~PyEq(cur, y)
    THEN IF cur.t = "none" \/ "latch" \notin Q
           THEN Guarded(Q, cur, y, D)
           ELSE [write |-> FALSE, vote |-> D]                  \* latched: never negative
    ELSE IF "onchange" \in Q THEN [write |-> FALSE, vote |-> ~D]  \* no change
    ELSE [write |-> FALSE, vote |-> D]                          \* latch, same value

Decide(Q, cur, y, rest, D) ==
  LET raw == IF "onmatch" \in Q /\ ~rest
               THEN [write |-> FALSE, vote |-> ~D]
             ELSE IF "latch" \in Q \/ "onchange" \in Q
               THEN LatchOnchange(Q, cur, y, D)
             ELSE Guarded(Q, cur, y, D)
      v1 == IF "asbool" \in Q /\ raw.vote = D THEN AsBool(y) ELSE raw.vote
      v2 == IF "nocontrib" \in Q THEN D ELSE v1
  IN [write |-> raw.write, vote |-> v2]

NeedsRest(Q) == "onmatch" \in Q
=============================================================================
