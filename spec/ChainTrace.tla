----------------------------- MODULE ChainTrace -----------------------------
(***************************************************************************)
(* Validation of recorded chains and references against Chain.tla (C20).   *)
(* One case per line of the batch (env TRACE_FILE):                        *)
(*  kind "chain": [tid, kind, file, stages]                                *)
(*     stages[m] = [prec, shown, returned, src]                            *)
(*       shown    the records the member was actually shown, in order      *)
(*       returned the records it collected                                 *)
(*       src      "pred" if its manifest names the predecessor's data.csv  *)
(*                as actual input, "orig" if the registered file, else "?" *)
(*  kind "refs":  [tid, kind, mvars, lines, headers, refs]                 *)
(*     mvars: the final variables of each member of the referenced group's *)
(*     most recent run, in run order; lines/headers: what its (only)       *)
(*     member collected and its header names;                              *)
(*     refs[i] = [what ("variable"|"header"), name, key, got]              *)
(* (That each stage returns the right subset of what it is shown is        *)
(* RunTrace's business: every stage trace is validated there against the   *)
(* input this module requires.)                                            *)
(***************************************************************************)
EXTENDS Naturals, Sequences, FiniteSets, TLC, Json, IOUtils
INSTANCE Values

Traces == ndJsonDeserialize(IOEnv.TRACE_FILE)

VARIABLES tid, i, verdict
cvars == <<tid, i, verdict>>
Case == Traces[tid]

Init == tid \in 1..Len(Traces) /\ i = 1 /\ verdict = "run"

\* ---- chains: Chain!Input ---------------------------------------------------------------------
Input(m) == IF Case.stages[m].prec /\ m > 1 THEN Case.stages[m - 1].returned ELSE Case.file
StageDiff(m) ==
  LET s == Case.stages[m] IN
  \* a member that stops early is shown a prefix of its input; how long that prefix must be is decided
  \* by RunTrace on the member's own trace
  IF ~(Len(s.shown) <= Len(Input(m)) /\ s.shown = SubSeq(Input(m), 1, Len(s.shown))) THEN "stage_input"
  ELSE IF s.src # (IF s.prec /\ m > 1 THEN "pred" ELSE "orig") THEN "manifest_actual_data_file"
  ELSE "ok"

\* ---- references: Chain!RefVariable / RefHeader -------------------------------------------------
HeaderIdx(headers, h) == IF \E j \in 1..Len(headers) : headers[j] = h
                           THEN CHOOSE j \in 1..Len(headers) : headers[j] = h /\ \A x \in 1..(j-1) : headers[x] # h
                           ELSE 0
\* the group's variables: the members share one namespace, a later member's assignment overwrites an earlier one's
\* (docs/variables.md "Sharing Variables Between CsvPath Instances")
RECURSIVE Merge(_, _)
Merge(acc, vs) == IF vs = <<>> THEN acc ELSE Merge(SetVar(acc, Head(vs).n, Head(vs).v), Tail(vs))
RECURSIVE GroupVars(_, _)
GroupVars(acc, ms) == IF ms = <<>> THEN acc ELSE GroupVars(Merge(acc, Head(ms)), Tail(ms))
RefExpected(r) ==
  IF r.what = "variable"
    THEN LET v == GetVar(GroupVars(<<>>, Case.mvars), r.name) IN
           IF r.key = <<>> THEN v ELSE DGet(v, VStr(r.key))
    ELSE LET ix == HeaderIdx(Case.headers, r.hname)
             has == SelectSeq(Case.lines, LAMBDA l : Len(l) >= ix)
         IN VList([j \in 1..Len(has) |-> VStr(Strip(has[j][ix]))])
RefDiff(j) == IF ValEq(Case.refs[j].got, RefExpected(Case.refs[j])) THEN "ok" ELSE "reference_value"

Count == IF Case.kind = "chain" THEN Len(Case.stages) ELSE Len(Case.refs)
Step ==
  /\ verdict = "run" /\ i <= Count
  /\ LET d == IF Case.kind = "chain" THEN StageDiff(i) ELSE RefDiff(i) IN
       IF d = "ok" THEN i' = i + 1 /\ UNCHANGED verdict
       ELSE verdict' = d /\ UNCHANGED i
  /\ UNCHANGED tid
Finish == verdict = "run" /\ i = Count + 1 /\ verdict' = "ok" /\ UNCHANGED <<tid, i>>
Next == Step \/ Finish
Spec == Init /\ [][Next]_cvars

Emit == verdict # "run" =>
   PrintT(<<"V", ToJson([tid |-> Case.tid, verdict |-> verdict, at |-> i,
                         expected |-> IF verdict = "reference_value" THEN RefExpected(Case.refs[i])
                                      ELSE IF verdict = "stage_input" THEN Input(i) ELSE <<>>])>>)
=============================================================================
