---------------------------- MODULE RunDirsInd ----------------------------
(* Inductive-invariant argument for the run-directory design of RunDirs.tla (C10), for Apalache:
   the observation variable hist is dropped, the clock moves are abstracted to "the clock never
   goes back" (which covers same / plus1 / to13 / midnight), and the invariant is shown inductive
   for run lists of up to MaxRuns entries: IndInit => IndInv (length 0) and
   IndInv /\ Next => IndInv' (length 1). *)
EXTENDS Integers, Sequences, FiniteSets, Apalache

CONSTANTS
  \* @type: Set(Str);
  Groups,
  \* @type: Int;
  MaxRuns

VARIABLES
  \* @type: Int;
  clock,
  \* @type: Seq({g: Str, t: Int, idx: Int});
  runs

CInit == Groups = {"g1", "g2"} /\ MaxRuns = 6

\* @type: (Seq({g: Str, t: Int, idx: Int}), Str, Int) => Int;
CountSame(rs, g, t) == Cardinality({i \in DOMAIN rs : rs[i].g = g /\ rs[i].t = t})

Init == clock = 0 /\ runs = <<>>

Run(g, t) ==
  /\ t >= clock
  /\ Len(runs) < MaxRuns
  /\ clock' = t
  /\ runs' = Append(runs, [g |-> g, t |-> t, idx |-> CountSame(runs, g, t)])

Next == \E g \in Groups : \E t \in clock..(clock + 2) : Run(g, t)

\* ---- the properties of RunDirs.tla ------------------------------------------------------------
FreshDir == \A i, j \in DOMAIN runs : i # j => runs[i] # runs[j]
DenseIdx == \A i \in DOMAIN runs :
              runs[i].idx = Cardinality({j \in DOMAIN runs : j < i /\ runs[j].g = runs[i].g /\ runs[j].t = runs[i].t})
Chronological == \A i, j \in DOMAIN runs : i < j => runs[i].t <= runs[j].t
ClockBound == \A i \in DOMAIN runs : runs[i].t <= clock /\ runs[i].t >= 0
TypeOK == /\ clock >= 0
          /\ Len(runs) <= MaxRuns
          /\ \A i \in DOMAIN runs : runs[i].g \in Groups /\ runs[i].idx >= 0

IndInv == TypeOK /\ ClockBound /\ Chronological /\ DenseIdx /\ FreshDir

\* an arbitrary state satisfying the invariant
IndInit ==
  /\ clock = Gen(1)
  /\ runs = Gen(6)
  /\ IndInv
=============================================================================
