------------------------------- MODULE Syntax -------------------------------
(***************************************************************************)
(* The documented match grammar as a generator of component trees and of   *)
(* their token sequences, plus the layout of components inside the match   *)
(* part (C17).  csvpath/matching/lark_parser.py GRAMMAR:                    *)
(*   expression: left (WHEN action)? | REFERENCE (WHEN action)?            *)
(*             | equality (WHEN action)? | assignment | COMMENT            *)
(*   action: function | assignment        left: HEADER | VARIABLE | function *)
(*   assignment: VARIABLE "=" (left | REFERENCE | term)                    *)
(*   equality:   left "==" (left | REFERENCE | term)                       *)
(*   function: NAME "(" [a ("," a)*] ")"                                   *)
(*             a: term|VARIABLE|HEADER|function|equality|REFERENCE         *)
(* A reference is a component of its own (an existence test), the left of  *)
(* a when/do, the right of = and ==, and a function argument; it is never  *)
(* the left of = or ==.                                                    *)
(* A tree node is [k, tok, args]: k the kind, tok the token text of a leaf  *)
(* or the (qualified) function name, args the children in source order.    *)
(***************************************************************************)
EXTENDS Naturals, Sequences, FiniteSets, TLC, Json

CONSTANTS Depth,      \* nesting depth of function arguments
          Small       \* TRUE: a reduced lexicon (quick tier)

N(k, tok, args) == [k |-> k, tok |-> tok, args |-> args]
\* a quoted header name may contain blanks and dots (the dots are part of the name, not qualifiers)
Headers == IF Small THEN {N("hdr", "#\"b c\"", <<>>), N("hdr", "#a.asbool", <<>>), N("hdr", "#\"v.2\"", <<>>)}
           ELSE {N("hdr", "#a", <<>>), N("hdr", "#\"b c\"", <<>>), N("hdr", "#0", <<>>), N("hdr", "#a.asbool", <<>>),
                 N("hdr", "#\"v.2\"", <<>>), N("hdr", "#\"b c.d\"", <<>>)}
Vars == IF Small THEN {N("var", "@v.k", <<>>)}
        ELSE {N("var", "@v", <<>>), N("var", "@v.k", <<>>), N("var", "@w.onchange.nocontrib", <<>>)}
\* number literals keep their written kind and value: 2.0 is a decimal, a long integer keeps every digit
\* a string literal may span lines: the line break and the blanks around it are part of the literal; a backslash is a
\* character like any other ("a\tb" is four characters: there are no escape sequences)
Terms == IF Small THEN {N("term", "\"s t\"", <<>>), N("term", "-2", <<>>), N("term", "/a.b/", <<>>), N("term", "2.0", <<>>), N("term", "\"x \n  y\"", <<>>), N("term", "\"a\\tb\"", <<>>)}
         ELSE {N("term", "\"s t\"", <<>>), N("term", "5", <<>>), N("term", "-2", <<>>), N("term", "1.5", <<>>), N("term", "/a.b/", <<>>),
               N("term", "2.0", <<>>), N("term", "9007199254740993", <<>>), N("term", "\"x \n  y\"", <<>>), N("term", "\"a\\tb\"", <<>>)}
Refs == IF Small THEN {N("ref", "$p.variables.x.k", <<>>)}
        ELSE {N("ref", "$p.variables.x.k", <<>>), N("ref", "$p.headers.h", <<>>), N("ref", "$p.metadata.m", <<>>)}
\* function lexicon: name (with qualifiers) and arity; an arbitrary-name qualifier keeps its case (count.nM)
Fn0 == {"yes", "count.onmatch"}
Fn1 == IF Small THEN {"not", "count.nM"} ELSE {"not", "length", "count.nM"}
Fn2 == IF Small THEN {"push.notnone"} ELSE {"add", "push.notnone"}
Fn3 == IF Small THEN {} ELSE {"concat"}

RECURSIVE Fns(_), Args(_), Lefts(_), Eqs(_)
Leafs == Headers \cup Vars
Fns(d) == {N("fn", f, <<>>) : f \in Fn0} \cup
          (IF d = 0 THEN {}
           ELSE {N("fn", f, <<a>>) : f \in Fn1, a \in Args(d - 1)}
                \cup {N("fn", f, <<a, b>>) : f \in Fn2, a \in Args(d - 1), b \in Args(d - 1)}
                \cup (IF d = 1 THEN {N("fn", f, <<a, b, c>>) : f \in Fn3, a \in Args(0), b \in Args(0), c \in Args(0)} ELSE {}))
Lefts(d) == Leafs \cup Fns(d)
Eqs(d) == IF d = 0 THEN {} ELSE {N("eq", "==", <<l, r>>) : l \in Lefts(d - 1), r \in Lefts(d - 1) \cup Terms \cup Refs}
Args(d) == Terms \cup Leafs \cup Fns(d) \cup Eqs(d) \cup Refs
Asgs == {N("assign", "=", <<v, r>>) : v \in Vars, r \in Lefts(1) \cup Terms \cup Refs}
Actions == Fns(1) \cup {N("assign", "=", <<v, r>>) : v \in Vars, r \in Leafs \cup Terms \cup Refs}
Whens == {N("when", "->", <<l, a>>) : l \in Lefts(0) \cup Eqs(1) \cup Refs, a \in {x \in Actions : x.k = "assign" \/ Len(x.args) <= 1}}
Exprs == Lefts(Depth) \cup Eqs(Depth) \cup Asgs \cup Whens \cup Refs

\* the token sequence of a tree (tokens inside a component are separated by one blank when written)
RECURSIVE Toks(_), ToksList(_)
ToksList(as) == IF as = <<>> THEN <<>>
                ELSE IF Len(as) = 1 THEN Toks(as[1])
                ELSE Toks(as[1]) \o <<",">> \o ToksList(Tail(as))
Toks(n) == CASE n.k \in {"hdr", "var", "term", "ref"} -> <<n.tok>>
             [] n.k = "fn" -> <<n.tok, "(">> \o ToksList(n.args) \o <<")">>
             [] OTHER -> Toks(n.args[1]) \o <<n.tok>> \o Toks(n.args[2])

VARIABLE e
Init == e \in Exprs
Next == UNCHANGED e
\* every tree of the documented grammar is a legal component: it has a token sequence that starts with
\* a header, a variable or a function name
StartsRight == Toks(e)[1] \notin {"(", ")", ",", "==", "=", "->"}
Emit == PrintT(<<"F", ToJson([tree |-> e, toks |-> Toks(e)])>>)
=============================================================================
