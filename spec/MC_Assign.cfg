CONSTANT Sample = TRUE
INIT Init
NEXT Next
INVARIANT NocontribNeutral
INVARIANT OnmatchGates
INVARIANT WriteSetsY
INVARIANT NoWriteKeeps
INVARIANT NotnoneBlocks
INVARIANT LatchWritesOnce
INVARIANT LatchNeverNegative
INVARIANT OnchangeNegative
INVARIANT IncreaseMonotone
INVARIANT DecreaseMonotone
INVARIANT AsboolTruth
INVARIANT PlainAlways
INVARIANT WritePositive
CHECK_DEADLOCK FALSE
