CONSTANTS
  Alphabet = {97, 98, 32, 58, 45, 46, 49}
  MaxLen = 4
INIT Init
NEXT Next
INVARIANT NoColonNoFields
INVARIANT ValuesStripped
INVARIANT KeysAreWords
CHECK_DEADLOCK FALSE
