------------------------------ MODULE Values ------------------------------
(***************************************************************************)
(* The value domain of the csvpath match language and the coercions the    *)
(* interpreter applies everywhere (csvpath/matching/util/                  *)
(* expression_utility.py, Python's f"{v}", str.strip, int()).              *)
(*                                                                         *)
(* Every value is a record of ONE shape  [t, i, s, items]  so that TLC     *)
(* never has to compare unlike things:                                     *)
(*   none   [t |-> "none"]                                                 *)
(*   bool   [t |-> "bool",  i |-> 0/1]                                     *)
(*   int    [t |-> "int",   i |-> n]                                       *)
(*   float  [t |-> "float", i |-> n]      an INTEGRAL float n.0            *)
(*   str    [t |-> "str",   s |-> <<code points>>]                         *)
(*   list   [t |-> "list",  items |-> <<values>>]         (stack variable) *)
(*   dict   [t |-> "dict",  items |-> <<pair values>>]    insertion order  *)
(*   pair   [t |-> "pair",  items |-> <<key, value>>]                      *)
(* Text is a sequence of code points; Python compares str by code point.   *)
(***************************************************************************)
EXTENDS Integers, Sequences, FiniteSets

Mk(t, i, s, items) == [t |-> t, i |-> i, s |-> s, items |-> items]
None      == Mk("none", 0, <<>>, <<>>)
VBool(b)   == Mk("bool", IF b THEN 1 ELSE 0, <<>>, <<>>)
VInt(n)    == Mk("int", n, <<>>, <<>>)
VFloat(n)  == Mk("float", n, <<>>, <<>>)
VStr(s)    == Mk("str", 0, s, <<>>)
VList(xs)  == Mk("list", 0, <<>>, xs)
VDict(ps)  == Mk("dict", 0, <<>>, ps)
VPair(k, v) == Mk("pair", 0, <<>>, <<k, v>>)

IsNoneV(v) == v.t = "none"
IsNum(v)   == v.t \in {"int", "float"}

\* ---- text ---------------------------------------------------------------------------------------
\* what Python's str.strip() removes: every character c with c.isspace()
WS == {9, 10, 11, 12, 13, 28, 29, 30, 31, 32, 133, 160, 5760, 8232, 8233, 8239, 8287, 12288} \cup (8192..8202)
RECURSIVE LStrip(_)
LStrip(s) == IF s # <<>> /\ Head(s) \in WS THEN LStrip(Tail(s)) ELSE s
RECURSIVE RStrip(_)
RStrip(s) == IF s # <<>> /\ s[Len(s)] \in WS THEN RStrip(SubSeq(s, 1, Len(s) - 1)) ELSE s
Strip(s) == RStrip(LStrip(s))

LowerC(c) == IF c >= 65 /\ c <= 90 THEN c + 32 ELSE c
UpperC(c) == IF c >= 97 /\ c <= 122 THEN c - 32 ELSE c
Lower(s) == [j \in 1..Len(s) |-> LowerC(s[j])]
Upper(s) == [j \in 1..Len(s) |-> UpperC(s[j])]

IsPrefixT(p, s) == Len(p) <= Len(s) /\ SubSeq(s, 1, Len(p)) = p

\* lexicographic order on code point sequences = Python's str order
RECURSIVE TextLt(_, _)
TextLt(a, b) ==
  IF b = <<>> THEN FALSE
  ELSE IF a = <<>> THEN TRUE
  ELSE IF Head(a) < Head(b) THEN TRUE
  ELSE IF Head(a) > Head(b) THEN FALSE
  ELSE TextLt(Tail(a), Tail(b))
TextLe(a, b) == a = b \/ TextLt(a, b)

\* decimal printing of an integer
RECURSIVE NatText(_)
NatText(n) == IF n < 10 THEN <<48 + n>> ELSE NatText(n \div 10) \o <<48 + (n % 10)>>
IntText(n) == IF n < 0 THEN <<45>> \o NatText(0 - n) ELSE NatText(n)

\* decimal parsing: optional '-', then one or more ASCII digits (the generators' numeric cells)
IsDigits(s) == s # <<>> /\ \A j \in 1..Len(s) : s[j] >= 48 /\ s[j] <= 57
IsIntText(s) == LET u == Strip(s) IN
                  IF u # <<>> /\ Head(u) = 45 THEN IsDigits(Tail(u)) ELSE IsDigits(u)
RECURSIVE DigitsVal(_, _)
DigitsVal(s, acc) == IF s = <<>> THEN acc ELSE DigitsVal(Tail(s), acc * 10 + (Head(s) - 48))
TextInt(s) == LET u == Strip(s) IN
                IF Head(u) = 45 THEN 0 - DigitsVal(Tail(u), 0) ELSE DigitsVal(u, 0)

T_None  == <<78, 111, 110, 101>>          \* "None"
T_nan   == <<110, 97, 110>>               \* "nan"
T_True  == <<84, 114, 117, 101>>          \* "True"
T_False == <<70, 97, 108, 115, 101>>      \* "False"
T_true  == <<116, 114, 117, 101>>
T_false == <<102, 97, 108, 115, 101>>
T_dot0  == <<46, 48>>                     \* ".0"

\* Python's f"{v}" for the scalar tags (containers are never stringified inside the model)
StrOf(v) ==
  CASE v.t = "none"  -> T_None
    [] v.t = "bool"  -> IF v.i = 1 THEN T_True ELSE T_False
    [] v.t = "int"   -> IntText(v.i)
    [] v.t = "float" -> IntText(v.i) \o T_dot0
    [] v.t = "str"   -> v.s
    [] OTHER         -> <<63>>

\* ExpressionUtility.is_none: None, "None", "nan", blank after strip
IsNone(v) ==
  \/ v.t = "none"
  \/ v.t = "str" /\ (v.s = T_None \/ v.s = T_nan \/ Strip(v.s) = <<>>)

\* ExpressionUtility.is_empty: is_none, or an empty container / a container of empties
RECURSIVE IsEmpty(_)
IsEmpty(v) ==
  \/ IsNone(v)
  \/ v.t = "list" /\ \A j \in 1..Len(v.items) : IsEmpty(v.items[j])
  \/ v.t = "dict" /\ v.items = <<>>

\* Python truthiness ( `if v:` / `not v` )
Truthy(v) ==
  CASE v.t = "none"  -> FALSE
    [] v.t = "bool"  -> v.i = 1
    [] v.t \in {"int", "float"} -> v.i # 0
    [] v.t = "str"   -> v.s # <<>>
    [] OTHER         -> v.items # <<>>

\* ExpressionUtility.asbool
AsBool(v) ==
  CASE v.t = "none" -> FALSE
    [] v.t = "bool" -> v.i = 1
    [] v.t \in {"list", "dict"} /\ v.items = <<>> -> TRUE
    [] v.t = "str" /\ Strip(Lower(v.s)) = T_false -> FALSE
    [] v.t = "str" /\ Strip(v.s) = T_nan -> FALSE
    [] v.t = "str" /\ Strip(Lower(v.s)) = T_true -> TRUE
    [] OTHER -> Truthy(v)

\* numeric reading of a value that passed numeric argument validation (None-like counts as 0)
NumOf(v) ==
  CASE v.t \in {"int", "float"} -> v.i
    [] v.t = "bool" -> v.i
    [] v.t = "str" /\ IsIntText(v.s) -> TextInt(v.s)
    [] OTHER -> 0
\* does the value read as a number (ExpressionUtility.is_one_of(v, [int]) without the None case)
NumLike(v) == v.t \in {"int", "float"} \/ (v.t = "str" /\ IsIntText(v.s))

\* Python == between two values of the model
NumOrBool(v) == v.t \in {"int", "float", "bool"}     \* Python: True == 1 == 1.0
PyEq(a, b) ==
  IF NumOrBool(a) /\ NumOrBool(b) THEN a.i = b.i
  ELSE a.t = b.t /\ a = b

\* the language's '==' : stripped string forms equal, else Python equality
LangEq(a, b) == Strip(StrOf(a)) = Strip(StrOf(b)) \/ PyEq(a, b)

\* ---- variables: a sequence of [n |-> name (STRING), v |-> value], insertion ordered -----------
HasVar(vars, n) == \E j \in 1..Len(vars) : vars[j].n = n
VarIdx(vars, n) == CHOOSE j \in 1..Len(vars) : vars[j].n = n
GetVar(vars, n) == IF HasVar(vars, n) THEN vars[VarIdx(vars, n)].v ELSE None
SetVar(vars, n, v) ==
  IF HasVar(vars, n) THEN [vars EXCEPT ![VarIdx(vars, n)] = [n |-> n, v |-> v]]
  ELSE Append(vars, [n |-> n, v |-> v])

\* ---- dict values (tracking variables): insertion ordered sequence of pairs --------------------
DHas(d, k) == \E j \in 1..Len(d.items) : PyEq(d.items[j].items[1], k)
DIdx(d, k) == CHOOSE j \in 1..Len(d.items) : PyEq(d.items[j].items[1], k)
DGet(d, k) == IF d.t = "dict" /\ DHas(d, k) THEN d.items[DIdx(d, k)].items[2] ELSE None
DSet(d, k, v) ==
  IF d.t = "dict" /\ DHas(d, k) THEN VDict([d.items EXCEPT ![DIdx(d, k)] = VPair(k, v)])
  ELSE IF d.t = "dict" THEN VDict(Append(d.items, VPair(k, v)))
  ELSE VDict(<<VPair(k, v)>>)

\* CsvPath.get_variable(name, tracking=k) / set_variable(name, tracking=k, value=v)
GetTracked(vars, n, k) == DGet(GetVar(vars, n), k)
SetTracked(vars, n, k, v) == SetVar(vars, n, DSet(GetVar(vars, n), k, v))

\* observation normal form: tracking entries whose value is None are dropped (the implementation
\* creates such entries when a tracking variable is merely read; see CHOICES.md)
RECURSIVE DropNonePairs(_)
DropNonePairs(ps) ==
  IF ps = <<>> THEN <<>>
  ELSE IF Head(ps).items[2].t = "none" THEN DropNonePairs(Tail(ps))
  ELSE <<Head(ps)>> \o DropNonePairs(Tail(ps))
NormV(v) == IF v.t = "dict" THEN VDict(DropNonePairs(v.items)) ELSE v
NormVars(vars) ==
  SelectSeq([j \in 1..Len(vars) |-> [n |-> vars[j].n, v |-> NormV(vars[j].v)]],
            LAMBDA e : ~(e.v.t = "dict" /\ e.v.items = <<>>))

\* observation equality of two variable stores: insensitive to the order in which variables (and the
\* keys of a tracking dictionary) were first touched - the implementation inserts a key when it is
\* first READ, which is not an assignment the csvpath made (see CHOICES.md)
ItemSet(v) == {v.items[j] : j \in 1..Len(v.items)}
ValEq(x, y) == IF x.t = "dict" /\ y.t = "dict"
                 THEN Len(x.items) = Len(y.items) /\ ItemSet(x) = ItemSet(y)
                 ELSE x = y
VarsEq(a, b) == /\ Len(a) = Len(b)
                /\ \A j \in 1..Len(a) : \E m \in 1..Len(b) : a[j].n = b[m].n /\ ValEq(a[j].v, b[m].v)
=============================================================================
