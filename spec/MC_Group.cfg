CONSTANTS
  M = 3
  N = 3
  Shared = FALSE
INIT Init
NEXT Next
INVARIANT Solo
CHECK_DEADLOCK FALSE
