------------------------------- MODULE History -------------------------------
(***************************************************************************)
(* Results depend only on the csvpath, the file and the configuration      *)
(* (C19): csvpath/managers/files/file_cacher.py, util/cache.py (line count *)
(* and header cache on disk, keyed by path), process-global registries     *)
(* (function factory, data readers, loggers, the warnings filter installed *)
(* by Expression.check_valid).                                             *)
(*                                                                         *)
(* Jobs is a set of (csvpath, file) jobs; FileOf(j) names the file a job   *)
(* reads.  cache[f] says whether the on-disk cache holds file f; mem[f]    *)
(* whether the current process holds it in memory; used says whether the   *)
(* current process has parsed/run anything yet.  A job is run either by a  *)
(* stand-alone CsvPath ("direct"), by a CsvPath created by a CsvPaths       *)
(* instance ("paths"), which is the route that consults the cache, or as a *)
(* named run ("named"): the job's file is registered under ONE shared     *)
(* named-file name - whatever was registered under it before, in this or   *)
(* an earlier process (reg, regs: the named-files area is on disk) - and   *)
(* the csvpath runs as a one-member group on that name.                    *)
(***************************************************************************)
EXTENDS Naturals, Sequences, FiniteSets, TLC, Json

CONSTANTS NJobs, NFiles, MaxLen
Jobs == 1..NJobs
Files == 1..NFiles
FileOf(j) == ((j - 1) % NFiles) + 1

VARIABLES cache, mem, used, reg, regs, ver, hist
hvars == <<cache, mem, used, reg, regs, ver, hist>>

Init == /\ cache = [f \in Files |-> "cold"] /\ mem = [f \in Files |-> FALSE]
        /\ used = FALSE /\ reg = 0 /\ regs = {} /\ ver = [f \in Files |-> 1] /\ hist = <<>>

\* the result of a job is a function of the job alone: its csvpath and what its file holds NOW (ver: a file may be replaced by
\* another file at the same path - Rewrite)
Res(j) == <<j, ver[FileOf(j)]>>

Job(j, via) ==
  /\ hist' = Append(hist, [op |-> "job", j |-> j, via |-> via, res |-> Res(j),
                           cacheWas |-> cache[FileOf(j)], memWas |-> mem[FileOf(j)], usedWas |-> used,
                           regWas |-> reg, regBefore |-> FileOf(j) \in regs, ver |-> ver[FileOf(j)]])
  /\ used' = TRUE /\ UNCHANGED ver
  /\ IF via \in {"paths", "named"}
       THEN cache' = [cache EXCEPT ![FileOf(j)] = "warm"] /\ mem' = [mem EXCEPT ![FileOf(j)] = TRUE]
       ELSE UNCHANGED <<cache, mem>>
  \* a named run reads the file that is registered under the shared name NOW: the job's own
  /\ IF via = "named" THEN reg' = FileOf(j) /\ regs' = regs \cup {FileOf(j)} ELSE UNCHANGED <<reg, regs>>
NewProcess == /\ used
              /\ used' = FALSE /\ mem' = [f \in Files |-> FALSE] /\ UNCHANGED <<cache, reg, regs, ver>>
              /\ hist' = Append(hist, [op |-> "newproc", j |-> 0, via |-> "", res |-> 0, cacheWas |-> "", memWas |-> FALSE, usedWas |-> TRUE, regWas |-> reg, regBefore |-> FALSE, ver |-> 0])
ClearCache == /\ \E f \in Files : cache[f] = "warm"
              /\ cache' = [f \in Files |-> "cold"] /\ UNCHANGED <<mem, used, reg, regs, ver>>
              /\ hist' = Append(hist, [op |-> "clearcache", j |-> 0, via |-> "", res |-> 0, cacheWas |-> "", memWas |-> FALSE, usedWas |-> used, regWas |-> reg, regBefore |-> FALSE, ver |-> 0])
\* another file is put at the path of file f (what a path names is what it holds now). The line/header caches are keyed by
\* the path: they belong to the file that was there, so the step empties the on-disk cache, and it is only taken while no
\* CsvPaths instance of the current process holds the old file in memory (the statement is about the same file cold vs warm)
Rewrite(f) == /\ ver[f] = 1 /\ ~mem[f]
              /\ ver' = [ver EXCEPT ![f] = 2] /\ cache' = [g \in Files |-> "cold"] /\ UNCHANGED <<mem, used, reg, regs>>
              /\ hist' = Append(hist, [op |-> "rewrite", j |-> f, via |-> "", res |-> 0, cacheWas |-> "", memWas |-> FALSE, usedWas |-> used,
                                       regWas |-> reg, regBefore |-> FALSE, ver |-> 2])

Next == /\ Len(hist) < MaxLen
        /\ \/ \E j \in Jobs, via \in {"direct", "paths", "named"} : Job(j, via)
           \/ NewProcess \/ ClearCache
           \/ \E f \in Files : Rewrite(f)
Spec == Init /\ [][Next]_hvars

\* the property: whatever happened before, a job's result is the job's result
HistoryFree == \A i \in 1..Len(hist) : hist[i].op = "job" => hist[i].res = <<hist[i].j, hist[i].ver>>
\* the situations the replay must exercise (read with -coverage / counted by the harness):
\* a job served from a warm disk cache in a fresh process, from memory, cold, and after other jobs
WarmFresh == \E i \in 1..Len(hist) : hist[i].op = "job" /\ hist[i].via = "paths" /\ hist[i].cacheWas = "warm" /\ ~hist[i].memWas

\* a name re-registered to content it held before, with other content in between (X, Y, X)
BackToEarlier == \E i \in 1..Len(hist) : hist[i].op = "job" /\ hist[i].via = "named" /\ hist[i].regBefore /\ hist[i].regWas # FileOf(hist[i].j)

Emit == Len(hist) = MaxLen => PrintT(<<"F", ToJson(hist)>>)
StoreView == <<cache, mem, used, reg, regs, ver>>
=============================================================================
