--------------------------- MODULE MC_ErrorPolicy ---------------------------
(***************************************************************************)
(* Closed instance for C05: all 64 policies x validation-mode overrides x  *)
(* error kinds x every non-empty set of offending lines in a 4-line file.  *)
(* The machine processes the file line by line in handler order; the       *)
(* invariants restate the property as independent iff-clauses.             *)
(***************************************************************************)
EXTENDS ErrorPolicy, Json

CONSTANTS NLines, Overrides,  \* Overrides: "none" | "single" | "pairs"
          MaxComps

Kinds == {"argtop", "argval", "rule", "pyexc", "nested", "rhs"}
B == BOOLEAN
Singles == {[f \in {g} |-> b] : g \in Overridable \cup {"match"}, b \in B}
Pairs == {[f \in {g, h} |-> IF f = g THEN b ELSE c] : g \in Overridable, h \in Overridable, b \in B, c \in B}
VMs == IF Overrides = "none" THEN {<<>>}
       ELSE IF Overrides = "single" THEN {<<>>} \cup Singles
       ELSE {<<>>} \cup Singles \cup {p \in Pairs : Cardinality(DOMAIN p) = 2}

VARIABLES policy, vm, kind, bad, ncomp, k, st, returned, pc
vars == <<policy, vm, kind, bad, ncomp, k, st, returned, pc>>

Init == /\ policy \in SUBSET Flags
        /\ kind \in Kinds
        /\ vm \in {v \in VMs : "match" \in DOMAIN v => kind = "argtop"}
        /\ bad \in (SUBSET (0..(NLines-1))) \ {{}}
        /\ ncomp \in 1..MaxComps          \* how many components of an offending line raise
        /\ k = 0 /\ returned = <<>> /\ pc = "iter"
        /\ st = [stopped |-> FALSE, errors |-> <<>>, valid |-> TRUE, printed |-> <<>>, raised |-> FALSE]

\* one record: a good line is returned; a bad line is handled per the policy
Line ==
  /\ pc = "iter" /\ k < NLines
  /\ IF k \in bad
       THEN LET s == HandleN(policy, vm, st, k, ncomp) IN
            /\ st' = s
            /\ returned' = IF ErrLineMatches(vm, kind) /\ ~s.raised THEN Append(returned, k) ELSE returned
            /\ pc' = IF s.raised \/ s.stopped \/ k + 1 = NLines THEN "done" ELSE "iter"
       ELSE /\ returned' = Append(returned, k)
            /\ pc' = IF k + 1 = NLines THEN "done" ELSE "iter"
            /\ UNCHANGED st
  /\ k' = k + 1
  /\ UNCHANGED <<policy, vm, kind, bad, ncomp>>
Next == Line
Spec == Init /\ [][Next]_vars

\* ---- the property as five independent iff-clauses (evaluated when the run is over) ---------------
Done == pc = "done"
SetOf(s) == {s[i] : i \in 1..Len(s)}
Handled == {n \in bad : n < k}                 \* offending lines the run got to
FirstBad == CHOOSE n \in bad : \A m \in bad : n <= m
RaiseIff   == Done => (st.raised <=> Eff(policy, vm, "raise"))
CollectIff == Done => (IF "collect" \in policy THEN SetOf(st.errors) = Handled ELSE st.errors = <<>>)
\* every error of a line is handled (one record each) unless one of them was raised to the caller
Count(s, x) == Cardinality({i \in 1..Len(s) : s[i] = x})
EveryErrorHandled == (Done /\ "collect" \in policy) =>
   \A n \in Handled : Count(st.errors, n) = IF Eff(policy, vm, "raise") THEN 1 ELSE ncomp
FailIff    == Done => (st.valid <=> ~Eff(policy, vm, "fail"))
PrintIff   == Done => (IF Eff(policy, vm, "print") THEN SetOf(st.printed) = Handled ELSE st.printed = <<>>)
StopIff    == Done => (st.stopped <=> Eff(policy, vm, "stop"))
\* stop or raise: the first offending line is the last line considered; otherwise the whole file is read
ReachIff   == Done => (k = IF Eff(policy, vm, "stop") \/ Eff(policy, vm, "raise") THEN FirstBad + 1 ELSE NLines)
NoMatchOnError == Done => \A n \in SetOf(returned) : n \in bad => ErrLineMatches(vm, kind)
GoodLinesReturned == Done => \A n \in 0..(k-1) : n \notin bad => n \in SetOf(returned)
QuietChangesNothing == TRUE   \* by construction: Handle never consults "quiet"

Emit == Done => PrintT(<<"F", ToJson([policy |-> policy, vm |-> vm, kind |-> kind, bad |-> bad, ncomp |-> ncomp,
                                      considered |-> k, returned |-> returned, errors |-> st.errors,
                                      valid |-> st.valid, printed |-> st.printed, raised |-> st.raised,
                                      stopped |-> st.stopped])>>)
=============================================================================
