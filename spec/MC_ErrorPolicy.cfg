CONSTANT NLines = 4
CONSTANT Overrides = "single"
INIT Init
NEXT Next
INVARIANT RaiseIff
INVARIANT CollectIff
INVARIANT FailIff
INVARIANT PrintIff
INVARIANT StopIff
INVARIANT ReachIff
INVARIANT NoMatchOnError
INVARIANT GoodLinesReturned
CHECK_DEADLOCK FALSE
