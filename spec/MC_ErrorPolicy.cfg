CONSTANT NLines = 4
CONSTANT Overrides = "single"
CONSTANT MaxComps = 2
INIT Init
NEXT Next
INVARIANT RaiseIff
INVARIANT CollectIff
INVARIANT EveryErrorHandled
INVARIANT FailIff
INVARIANT PrintIff
INVARIANT StopIff
INVARIANT ReachIff
INVARIANT NoMatchOnError
INVARIANT GoodLinesReturned
CHECK_DEADLOCK FALSE
