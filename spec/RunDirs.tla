------------------------------ MODULE RunDirs ------------------------------
(***************************************************************************)
(* Run directories of named-paths runs and the clock (C10):                *)
(* csvpath/csvpaths.py run_time_str/clear_run_coordination,                *)
(* managers/results/result_serializer.py get_run_dir,                      *)
(* managers/results/results_manager.py _find_in_dir_names.                 *)
(*                                                                         *)
(* clock  seconds since 00:00:00 of day 0                                  *)
(* runs   sequence of [g, t, idx]: group, start second, collision index    *)
(*        among the runs of that group started in the same second          *)
(* A run directory is archive/<g>/<stamp(t)>[.idx-1]; stamp is a 24-hour   *)
(* YYYY-MM-DD_HH-MM-SS so names of different seconds order as times do.    *)
(***************************************************************************)
EXTENDS Naturals, Sequences, FiniteSets, TLC, Json

CONSTANTS Groups, Methods, MaxLen, Start, MoveSet

VARIABLES clock, runs, hist
vars == <<clock, runs, hist>>

Day == 86400
T1300 == 13 * 3600 + 1            \* 13:00:01
\* the clock moves of the property's quantifier
Move(c, mv) ==
  CASE mv = "same"     -> c
    [] mv = "plus1"    -> c + 1
    [] mv = "to13"     -> IF c % Day < T1300 THEN (c \div Day) * Day + T1300 ELSE c + 1
    [] mv = "midnight" -> ((c \div Day) + 1) * Day
Moves == MoveSet       \* a subset of {"same", "plus1", "to13", "midnight"}

Init == clock = Start /\ runs = <<>> /\ hist = <<>>

SameSlot(g, t) == {i \in 1..Len(runs) : runs[i].g = g /\ runs[i].t = t}

\* ':last' / ':first' with a prefix: the most recent / earliest run of the group whose name starts
\* with the prefix. Prefixes used: "" (any), the day of t, the day and hour of t.
Matches(r, p, t) == CASE p = "any"  -> TRUE
                      [] p = "day"  -> r.t \div Day = t \div Day
                      [] p = "hour" -> r.t \div 3600 = t \div 3600
Cand(rs, g, p, t) == {i \in 1..Len(rs) : rs[i].g = g /\ Matches(rs[i], p, t)}
\* among runs of the same second the choice is left open (the statement orders different seconds only)
LastOf(rs, g, p, t) == {i \in Cand(rs, g, p, t) : \A j \in Cand(rs, g, p, t) : rs[j].t <= rs[i].t}
FirstOf(rs, g, p, t) == {i \in Cand(rs, g, p, t) : \A j \in Cand(rs, g, p, t) : rs[j].t >= rs[i].t}
Prefixes == {"any", "day", "hour"}

Run(mv, inst, g, m) ==
  LET t == Move(clock, mv)
      r == [g |-> g, t |-> t, idx |-> Cardinality({i \in 1..Len(runs) : runs[i].g = g /\ runs[i].t = t})]
      rs == Append(runs, r)
  IN /\ clock' = t
     /\ runs' = rs
     /\ hist' = Append(hist, [mv |-> mv, inst |-> inst, g |-> g, m |-> m, run |-> r,
                              last |-> [gg \in Groups |-> [p \in Prefixes |-> LastOf(rs, gg, p, t)]],
                              first |-> [gg \in Groups |-> [p \in Prefixes |-> FirstOf(rs, gg, p, t)]]])

Next == /\ Len(hist) < MaxLen
        /\ \E mv \in Moves, inst \in {"new", "reused"}, g \in Groups, m \in Methods : Run(mv, inst, g, m)
Spec == Init /\ [][Next]_vars

\* ---- properties (C10) ----------------------------------------------------------------------------
\* every run has its own directory, under its own group
FreshDir == \A i, j \in 1..Len(runs) : i # j => runs[i] # runs[j]
\* collision indices are dense per (group, second): 0, 1, 2 ... in start order
DenseIdx == \A i \in 1..Len(runs) :
              runs[i].idx = Cardinality({j \in 1..(i-1) : runs[j].g = runs[i].g /\ runs[j].t = runs[i].t})
\* runs started in different seconds order chronologically by (24-hour) directory name
Chronological == \A i, j \in 1..Len(runs) : i < j => runs[i].t <= runs[j].t
\* :last names a most recent run with that prefix; the run just made is always a :last of its group
LastIsNewest == hist # <<>> =>
   LET h == hist[Len(hist)] IN Len(runs) \in h.last[h.g]["any"]
\* earlier runs are never rewritten: the list of runs only grows
EarlierUntouched == [][SubSeq(runs', 1, Len(runs)) = runs]_vars

Emit == Len(hist) = MaxLen => PrintT(<<"F", ToJson(hist)>>)
RunView == <<clock, runs>>
=============================================================================
