------------------------------ MODULE MC_Print ------------------------------
(***************************************************************************)
(* Closed instance for C16: every arrangement of up to MaxItems template   *)
(* items drawn from a set of text chunk shapes (one character, several,    *)
(* with leading/trailing blank, punctuation, a dot) and of references of   *)
(* every kind (variable plain / .key / stack .index / .length / unknown,   *)
(* header by name / index, metadata, csvpath field), adjacent, separated,  *)
(* at the start and at the end, under one fixed environment.  Each         *)
(* arrangement is emitted with what Print!Emitted says it prints and is    *)
(* replayed as a real print().                                             *)
(***************************************************************************)
EXTENDS Print, TLC, Json

CONSTANT MaxItems

T(s) == [k |-> "text", s |-> s, typ |-> "", nameS |-> "", nameT |-> <<>>, subS |-> "", subT |-> <<>>]
Rf(typ, nS, nT, sS, sT) == [k |-> "ref", s |-> <<>>, typ |-> typ, nameS |-> nS, nameT |-> nT, subS |-> sS, subT |-> sT]

Texts == { T(<<97>>),                     \* "a"
           T(<<44>>),                     \* ","
           T(<<32>>),                     \* " "
           T(<<97, 98, 32, 99>>),         \* "ab c"
           T(<<46>>),                     \* "."   (written ".." after a reference)
           T(<<45, 120>>),                \* "-x"
           T(<<32, 59, 32>>),             \* " ; "
           T(<<49, 46, 46, 51>>),         \* "1..3"  (dots inside plain text are plain text)
           T(<<46, 46, 46>>) }            \* "..."
Refs == { Rf("variables", "x", <<120>>, "", <<>>),
          Rf("variables", "t", <<116>>, "k", <<107>>),
          Rf("variables", "s", <<115>>, "1", <<49>>),
          Rf("variables", "s", <<115>>, "length", <<108, 101, 110, 103, 116, 104>>),
          Rf("variables", "nosuch", <<110, 111, 115, 117, 99, 104>>, "", <<>>),
          Rf("headers", "ha", <<104, 97>>, "", <<>>),
          Rf("headers", "1", <<49>>, "", <<>>),
          Rf("metadata", "title", <<116, 105, 116, 108, 101>>, "", <<>>),
          Rf("csvpath", "line_number", <<108, 105, 110, 101, 95, 110, 117, 109, 98, 101, 114>>, "", <<>>) }
Items == Texts \cup Refs

\* the fixed environment: the state after  @x = 5  @t.k = "v"  push("s","a") push("s","b")  on line 1
Env == [vars |-> << [n |-> "x", v |-> VInt(5)],
                    [n |-> "t", v |-> VDict(<<VPair(VStr(<<107>>), VStr(<<118>>))>>)],
                    [n |-> "s", v |-> VList(<<VStr(<<97>>), VStr(<<98>>)>>)] >>,
        line |-> << <<76, 48>>, <<32, 76, 49, 32>> >>,            \* "L0", " L1 "
        headers |-> << <<104, 97>>, <<104, 98>> >>,
        meta |-> << [k |-> <<116, 105, 116, 108, 101>>, v |-> <<84>>] >>,   \* title: T
        k |-> 1, matchCount |-> 0, scanCount |-> 1, totalData |-> 2, valid |-> TRUE, stopped |-> FALSE]

SepChars == {32, 44, 59, 58, 33, 45, 43, 40, 41, 91, 93, 123, 125, 60, 62, 47, 124, 63, 37, 38, 64, 35, 94, 39, 46}
\* a text directly after a reference must start with a character that ends the reference's name
WellFormed(t) == \A i \in 2..Len(t) : (t[i].k = "text" /\ t[i-1].k = "ref") => t[i].s[1] \in SepChars
\* two text items in a row are one text item: not a distinct arrangement
Normal(t) == \A i \in 2..Len(t) : ~(t[i].k = "text" /\ t[i-1].k = "text")
Adjacent(t) == \E i \in 2..Len(t) : t[i].k = "ref" /\ t[i-1].k = "ref"

VARIABLES tmpl
Init == tmpl \in {t \in UNION {[1..n -> Items] : n \in 1..MaxItems} : WellFormed(t) /\ Normal(t)}
Next == UNCHANGED tmpl

\* sanity of the specification itself: a template without references emits its own text
TextOnly == (\A i \in 1..Len(tmpl) : tmpl[i].k = "text") => Emitted(tmpl, Env) = tmpl[1].s
\* the emitted length is the sum of the parts: nothing is lost, nothing is added
RECURSIVE PartLen(_)
PartLen(t) == IF t = <<>> THEN 0
              ELSE Len(IF Head(t).k = "text" THEN Head(t).s ELSE RefText(Head(t), Env)) + PartLen(Tail(t))
NothingLost == Len(Emitted(tmpl, Env)) = PartLen(tmpl)

Emit == PrintT(<<"F", ToJson([tmpl |-> tmpl, out |-> Emitted(tmpl, Env), adjacent |-> Adjacent(tmpl)])>>)
=============================================================================
