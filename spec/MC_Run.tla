------------------------------- MODULE MC_Run -------------------------------
(***************************************************************************)
(* Closed instance of the run machine: a POOL of cases (program, file,     *)
(* configuration), enumerated systematically by the harness from component *)
(* templates x small files and read from env POOL_FILE, is explored by     *)
(* TLC: Init picks any case, Next is Run!Step.  Every run-machine property *)
(* is checked in every state of every behaviour, and each terminal state   *)
(* is emitted for replay into the real CsvPath (direction A).              *)
(***************************************************************************)
EXTENDS Run, Json, IOUtils

Cases == ndJsonDeserialize(IOEnv.POOL_FILE)

VARIABLES cid, S
mvars == <<cid, S>>
Case == Cases[cid]

Init == cid \in 1..Len(Cases) /\ S = InitS(Cases[cid])
Next == S.pc = "iter" /\ S' = Step(Case, S) /\ UNCHANGED cid
Spec == Init /\ [][Next]_mvars /\ WF_mvars(Next)

\* ---- properties of the design (C01, C03, C04, C13, C15) --------------------------------------------
ReturnedOnceInOrder == Increasing(S.returned) /\ Increasing(S.unmatched)
ReturnedWereOffered == \A i \in 1..Len(S.returned) :
     In(Case.prog.scan, S.returned[i]) /\ Case.file[S.returned[i] + 1] # <<>>
MatchLeScan == S.st.matchCount <= S.st.scanCount
ScanCountExact == S.pc = "done" /\ ~S.st.stopped =>
     S.st.scanCount = Cardinality({n \in 0..(Len(Case.file) - 1) : In(Case.prog.scan, n) /\ Case.file[n + 1] # <<>>})
StoppedIsFinal == S.st.stopped => S.pc = "done"
ReturnedCountIsMatchCount == (~Case.cfg.noMatches) => Len(S.returned) = S.st.matchCount
Partition == (Case.cfg.collecting /\ Case.cfg.keepUnmatched) => Len(S.returned) + Len(S.unmatched) = S.k
ValidityMonotone == [][S.st.valid' => S.st.valid]_mvars
CountsMonotone == [][S.st.matchCount' >= S.st.matchCount /\ S.st.scanCount' >= S.st.scanCount]_mvars
AdvanceInert == [][(S' # S /\ S'.kind = "advance") =>
                     /\ S'.st.vars = S.st.vars /\ S'.st.printed = S.st.printed /\ S'.st.valid = S.st.valid
                     /\ S'.st.matchCount = S.st.matchCount]_mvars
FrozenOnlyAtEnd == [][(S'.st.frozen /\ ~S.st.frozen) => (S'.pc = "done" \/ S'.kind = "blanklast")]_mvars

\* every run ends: no csvpath makes the run loop forever (liveness, checked under weak fairness of the only action)
Termination == <>(S.pc = "done")

Emit == S.pc = "done" =>
   PrintT(<<"F", ToJson([cid |-> Case.tid, returned |-> S.returned, unmatched |-> S.unmatched, vars |-> NormVars(S.st.vars),
                         valid |-> S.st.valid, matchCount |-> S.st.matchCount, scanCount |-> S.st.scanCount,
                         printed |-> S.st.printed, steps |-> S.k])>>)
=============================================================================
