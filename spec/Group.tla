-------------------------------- MODULE Group --------------------------------
(***************************************************************************)
(* A named-paths group over one file under a schedule (csvpath/csvpaths.py *)
(* collect_paths/next_paths/fast_forward_paths: path-major; next_by_line:   *)
(* line-major).  Members are abstract here: member m, shown record k as    *)
(* its j-th record, answers Ret(m, j) and stops after StopAt(m) records -   *)
(* both functions of the member and of what IT has consumed only (that is  *)
(* the hypothesis "no cross-path signals"; Shared = TRUE breaks it for the *)
(* negative control).                                                      *)
(*                                                                         *)
(* Next is the GENERAL interleaving: any member that is not done may       *)
(* consume its next record.  Serial and ByLine are the two schedules the   *)
(* implementation offers, as refinements (predicates on steps).            *)
(***************************************************************************)
EXTENDS Naturals, Sequences, FiniteSets, TLC

CONSTANTS M, N, Shared

Members == 1..M
VARIABLES prog,      \* per member: [rets |-> [1..N -> BOOLEAN], stop |-> 1..N]  chosen in Init
          seen,      \* per member: number of records consumed
          out,       \* per member: sequence of the answers it gave (its own results)
          flag,      \* a shared coordinator flag (only used when Shared)
          log        \* global order of steps <<m, k>>
vars == <<prog, seen, out, flag, log>>

Init == /\ prog \in [Members -> [rets : [1..N -> BOOLEAN], stop : 1..N]]
        /\ seen = [m \in Members |-> 0] /\ out = [m \in Members |-> <<>>]
        /\ flag = FALSE /\ log = <<>>

Done(m) == seen[m] >= prog[m].stop
\* member m consumes its next record
StepM(m) ==
  /\ ~Done(m)
  /\ LET j == seen[m] + 1
         ans == IF Shared /\ flag THEN FALSE ELSE prog[m].rets[j]   \* a leaked flag changes the answer
     IN /\ out' = [out EXCEPT ![m] = Append(@, ans)]
        /\ flag' = IF Shared /\ m = 1 /\ j = 1 THEN TRUE ELSE flag
  /\ seen' = [seen EXCEPT ![m] = @ + 1]
  /\ log' = Append(log, <<m, seen[m]>>)
  /\ UNCHANGED prog
Next == \E m \in Members : StepM(m)
Spec == Init /\ [][Next]_vars

\* ---- Solo: a member's results depend on itself only, under EVERY interleaving ------------------
Solo == \A m \in Members : out[m] = [j \in 1..seen[m] |-> prog[m].rets[j]]

\* ---- the two schedules of the implementation, as step predicates ---------------------------------
SerialStep == \E m \in Members : StepM(m) /\ \A x \in 1..(m-1) : Done(x)
\* line-major: the member with the fewest consumed records goes first, lowest index first among
\* those; members that are done are passed over
ByLineStep ==
  \E m \in Members : /\ StepM(m)
                     /\ \A x \in Members : ~Done(x) => (seen[m] < seen[x] \/ (seen[m] = seen[x] /\ m <= x))

\* ---- the yield rule of a breadth-first run (declarative) ------------------------------------------
\* record k (0-based) is handed to the caller iff some (with allAgree: every) member that is still
\* running at record k decides for it; a record no member looks at is not handed over...
ActiveAt(stops, k) == {m \in DOMAIN stops : k < stops[m]}
Keep(rets, stops, k, allAgree) ==
  LET A == ActiveAt(stops, k) IN
    IF allAgree THEN \A m \in A : rets[m][k + 1] ELSE \E m \in A : rets[m][k + 1]
\* ... and the run is over once every member has stopped
LastRecord(stops, n) == LET mx == CHOOSE s \in {stops[m] : m \in DOMAIN stops} :
                                    \A m \in DOMAIN stops : stops[m] <= s
                        IN IF mx < n THEN mx ELSE n
=============================================================================
