CONSTANTS
  NStages = 3
  NRecs = 3
INIT Init
NEXT Next
INVARIANT Composition
INVARIANT NoLeak
CHECK_DEADLOCK FALSE
