CONSTANTS
  MaxN = 3
  MaxBound = 4
  MaxItems = 2
INIT Init
NEXT Next
INVARIANT TypeOK
INVARIANT OfferedExactly
INVARIANT NothingElse
INVARIANT NoEarlyStop
CHECK_DEADLOCK FALSE
