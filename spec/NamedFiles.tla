----------------------------- MODULE NamedFiles -----------------------------
(***************************************************************************)
(* The named-files area: a versioned, content-addressed, immutable store   *)
(* (csvpath/managers/files/file_manager.py, file_registrar.py).  C11.      *)
(*                                                                         *)
(* src[s]    bytes currently in source file s (outside the store)          *)
(* man[n]    the manifest of name n: sequence of [file, fp] entries        *)
(* disk[n]   versions stored under name n: set of [file, fp]               *)
(* A version is identified by the source FILE NAME it came from and the    *)
(* fingerprint of its bytes; contents are abstract and are their own       *)
(* fingerprint.  An absent name has an empty manifest and no versions.     *)
(***************************************************************************)
EXTENDS Naturals, Sequences, FiniteSets, TLC, Json

CONSTANTS Names, Srcs, Contents, MaxLen,
          Race      \* BOOLEAN: a producer may still be writing the source file while it is being registered (AddRace)

VARIABLES src, man, disk, hist
vars == <<src, man, disk, hist>>
store == <<src, man, disk>>

Ver(s, c) == [file |-> s, fp |-> c]
Last(q) == q[Len(q)]

Init == /\ src = [s \in Srcs |-> 0]          \* 0: the source file does not exist yet
        /\ man = [n \in Names |-> <<>>]
        /\ disk = [n \in Names |-> {}]
        /\ hist = <<>>

\* what the API shows for a name after an operation
Current(n) == IF man[n] = <<>> THEN [file |-> "none", fp |-> 0] ELSE Last(man[n])
Obs == [n \in Names |-> [cur |-> Current(n), man |-> man[n], disk |-> disk[n]]]
ObsOf(m, d) == [n \in Names |-> [cur |-> IF m[n] = <<>> THEN [file |-> "none", fp |-> 0] ELSE Last(m[n]),
                                 man |-> m[n], disk |-> d[n]]]
Log(op, m, d) == hist' = Append(hist, [op |-> op, obs |-> ObsOf(m, d)])

\* add_named_file(name=n, path=s) after writing content c to the source file s
Add(n, s, c) ==
  LET v == Ver(s, c)
      m2 == [man EXCEPT ![n] = IF Len(@) > 0 /\ Last(@) = v THEN @ ELSE Append(@, v)]
      d2 == [disk EXCEPT ![n] = @ \cup {v}]
  IN /\ src' = [src EXCEPT ![s] = c]
     /\ man' = m2 /\ disk' = d2
     /\ Log([k |-> "add", n |-> n, s |-> s, c |-> c], m2, d2)

\* add_named_file(name=n, path=s) while a producer is still writing s: the source holds c when the call begins and c2 when it
\* returns.  Registration reads the source ONCE (the copy into the file home) - before the producer's write (late) or after it
\* (early) - and everything else (file name, manifest fingerprint) is derived from the bytes that landed: whichever content was
\* captured, it is filed under its own hash.  Two atomic reads of the source in one registration are what this action forbids.
AddRace(n, s, c, c2, early) ==
  LET landed == IF early THEN c2 ELSE c
      v == Ver(s, landed)
      m2 == [man EXCEPT ![n] = IF Len(@) > 0 /\ Last(@) = v THEN @ ELSE Append(@, v)]
      d2 == [disk EXCEPT ![n] = @ \cup {v}]
  IN /\ Race /\ c2 # c
     /\ src' = [src EXCEPT ![s] = c2]
     /\ man' = m2 /\ disk' = d2
     /\ Log([k |-> "addrace", n |-> n, s |-> s, c |-> c, c2 |-> c2, early |-> early], m2, d2)

\* the source file is edited after registration: the store must not notice
Mutate(s, c) == /\ src[s] # 0 /\ src[s] # c
                /\ src' = [src EXCEPT ![s] = c]
                /\ UNCHANGED <<man, disk>>
                /\ Log([k |-> "mutate", n |-> "", s |-> s, c |-> c], man, disk)

\* remove_named_file(n): the whole name goes away
Remove(n) == /\ man[n] # <<>>
             /\ man' = [man EXCEPT ![n] = <<>>] /\ disk' = [disk EXCEPT ![n] = {}]
             /\ UNCHANGED src
             /\ Log([k |-> "remove", n |-> n, s |-> "", c |-> 0], man', disk')

\* a fresh CsvPaths instance over the same directories sees the same state
NewInstance == /\ UNCHANGED store
               /\ Log([k |-> "new", n |-> "", s |-> "", c |-> 0], man, disk)

Next == /\ Len(hist) < MaxLen
        /\ \/ \E n \in Names, s \in Srcs, c \in Contents : Add(n, s, c)
           \/ \E n \in Names, s \in Srcs, c \in Contents, c2 \in Contents, early \in BOOLEAN : AddRace(n, s, c, c2, early)
           \/ \E s \in Srcs, c \in Contents : Mutate(s, c)
           \/ \E n \in Names : Remove(n)
           \/ NewInstance
Spec == Init /\ [][Next]_vars

\* ---- properties (C11) -----------------------------------------------------------------------
\* the current version is the most recent registration and it is on disk
CurrentOnDisk == \A n \in Names : man[n] # <<>> => Last(man[n]) \in disk[n]
\* every manifest entry names a stored version; every stored version was registered
ManifestMatchesDisk == \A n \in Names : {man[n][i] : i \in 1..Len(man[n])} = disk[n]
\* one entry per change of the current version, none for a repeat
NoRepeatEntries == \A n \in Names : \A i \in 1..(Len(man[n]) - 1) : man[n][i] # man[n][i + 1]
\* until the name is removed every version ever registered stays
VersionsImmutable == [][\A n \in Names : man'[n] # <<>> => disk[n] \subseteq disk'[n]]_vars
\* the manifest only grows, by at most one entry per operation, until the name is removed
ManifestAppendOnly ==
  [][\A n \in Names : man'[n] # <<>> =>
        /\ Len(man'[n]) \in {Len(man[n]), Len(man[n]) + 1}
        /\ SubSeq(man'[n], 1, Len(man[n])) = man[n]]_vars
\* editing a source file, or creating a new instance, changes nothing in the store
SourceEditsInvisible == [][(src' # src /\ Len(hist') = Len(hist) + 1 /\ Last(hist').op.k = "mutate")
                              => <<man, disk>>' = <<man, disk>>]_vars

\* ---- emission: one line per maximal history (replayed step by step into a real FileManager) ----
Emit == Len(hist) = MaxLen => PrintT(<<"F", ToJson(hist)>>)
StoreView == store       \* VIEW hiding the history: the abstract store alone, for deep exhaustive search
=============================================================================
