------------------------------ MODULE ScanRun ------------------------------
(***************************************************************************)
(* The run loop of CsvPath.next()/_consider_line restricted to what C02    *)
(* talks about: which records are offered to the match part, counted as    *)
(* scanned and returned, when the match part always holds (yes()).         *)
(* One action per pass through the loop body.                              *)
(***************************************************************************)
EXTENDS Naturals, Sequences, FiniteSets, TLC, Json, Scan

CONSTANTS MaxN,      \* files of 0..MaxN records
          MaxBound,  \* scan bounds 0..MaxBound
          MaxItems   \* '+' lists of 2..MaxItems operands

VARIABLES case,      \* [scan, blanks]  blanks[i] = TRUE iff record i-1 is blank
          k,         \* index of the next record to consider
          scanCount, \* CsvPath.scan_count
          returned,  \* record indices yielded by next(), in order
          lnums,     \* values line_number() showed the match part, in order
          stopped,   \* CsvPath.stopped
          pc         \* "iter" | "done"
vars == <<case, k, scanCount, returned, lnums, stopped, pc>>

Mk(kind, a, b, items) == [k |-> kind, a |-> a, b |-> b, items |-> items]
B == 0..MaxBound
Atoms == {Mk("one", a, 0, <<>>) : a \in B} \cup {Mk("range", a, b, <<>>) : a \in B, b \in B}
FwdAtoms == {s \in Atoms : WFAtom(s)}
\* ascending, non-overlapping sequences of n forward atoms, the first starting at or after lo
RECURSIVE Asc(_, _)
Asc(lo, n) == IF n = 0 THEN {<<>>}
              ELSE UNION {{<<a>> \o rest : rest \in Asc(AtomMax(a) + 1, n - 1)} :
                            a \in {x \in FwdAtoms : x.a >= lo}}
\* the quantifier's '+' lists are ascending; the scanner also accepts the same operands in any order
\* (the denotation is a union), which is checked as an extension
\* (every order of two operands; of three operands the written order, its reverse and one rotation)
Reorder(its) == LET n == Len(its) IN
                  {its, [i \in 1..n |-> its[n + 1 - i]], [i \in 1..n |-> its[(i % n) + 1]]}
PlusLists == UNION {UNION {{Mk("plus", 0, 0, r) : r \in Reorder(its)} : its \in Asc(0, n)} : n \in 2..MaxItems}
Scans == {Mk("all", 0, 0, <<>>)} \cup {Mk("from", a, 0, <<>>) : a \in B} \cup Atoms
         \cup PlusLists

N == Len(case.blanks)
FileOf(bl) == [i \in 1..Len(bl) |-> IF bl[i] THEN <<>> ELSE <<"x">>]   \* only blankness matters here

Init == /\ case \in {[scan |-> s, blanks |-> bl] :
                        s \in Scans, bl \in UNION {[1..n -> BOOLEAN] : n \in 0..MaxN}}
        /\ k = 0 /\ scanCount = 0 /\ returned = <<>> /\ lnums = <<>> /\ stopped = FALSE
        /\ pc = "iter"

\* ---- one pass through the loop body of next() ----------------------------------------------
BlankLast == k = N - 1 /\ case.blanks[k+1]            \* last record and blank: last() only, nothing returned
SkipBlank == case.blanks[k+1]
ConsiderLine ==
  /\ pc = "iter" /\ k < N
  /\ IF BlankLast \/ SkipBlank \/ ~In(case.scan, k)
       THEN UNCHANGED <<scanCount, returned, lnums, stopped>>
       ELSE /\ scanCount' = scanCount + 1
            /\ returned' = Append(returned, k)          \* yes() matches every offered line
            /\ lnums' = Append(lnums, k)
            /\ stopped' = IsLastScanLine(case.scan, k, N)
  /\ k' = k + 1
  /\ pc' = IF stopped' \/ k' = N THEN "done" ELSE "iter"
  /\ UNCHANGED case

Finalize == pc = "iter" /\ k = N /\ pc' = "done" /\ UNCHANGED <<case, k, scanCount, returned, lnums, stopped>>

Next == ConsiderLine \/ Finalize
Spec == Init /\ [][Next]_vars

\* ---- properties (C02) -----------------------------------------------------------------------
SeqToSet(s) == {s[i] : i \in 1..Len(s)}
StrictlyIncreasing(s) == \A i \in 1..(Len(s)-1) : s[i] < s[i+1]
TheOffered == Offered(case.scan, FileOf(case.blanks))

\* at the end of the run exactly the denoted non-blank lines were offered, each once, in order
OfferedExactly ==
  pc = "done" => /\ SeqToSet(returned) = TheOffered
                 /\ StrictlyIncreasing(returned)
                 /\ scanCount = Cardinality(TheOffered)
                 /\ lnums = returned
\* during the run nothing else is ever counted or returned
NothingElse == /\ SeqToSet(returned) \subseteq TheOffered
               /\ scanCount = Len(returned)
\* the stop rule never cuts off a denoted non-blank line
NoEarlyStop == stopped => \A n \in TheOffered : n < k

TypeOK == k \in 0..N /\ scanCount \in 0..N /\ stopped \in BOOLEAN /\ pc \in {"iter", "done"}

\* ---- emission of expected behaviours for replay into the implementation (direction A) ----------
Emit == pc = "done" =>
          PrintT(<<"F", ToJson([scan |-> case.scan, blanks |-> case.blanks,
                                returned |-> returned, scanCount |-> scanCount, lnums |-> lnums])>>)

\* scanner grain: the membership table of one scan AST over lines 0..MaxBound+1
EmitTable == (k = 0 /\ N = 0 /\ pc = "iter") =>
          PrintT(<<"T", ToJson([scan |-> case.scan,
                                member |-> [n \in 1..(MaxBound+2) |-> In(case.scan, n-1)]])>>)
=============================================================================
