------------------------------- MODULE Archive -------------------------------
(***************************************************************************)
(* The results archive of one named-paths run                              *)
(* (csvpath/managers/results/results_manager.py, result_serializer.py,     *)
(* result_registrar.py, results_registrar.py, util/line_spooler.py).       *)
(* C09 (the archive says what the run did), C18 (aborted runs), C04        *)
(* (aggregation of validity).                                              *)
(*                                                                         *)
(* Lifecycle actions, one per manager call:                                *)
(*   StartRun      run manifest written with status "start"                *)
(*   AddResult(m)  member m registered (its directory exists)              *)
(*   Save(m)       meta/vars/errors (+ data/unmatched/printouts) written,  *)
(*                 member manifest completed                               *)
(*   CompleteRun   run manifest rewritten with status "complete"           *)
(*   Abort(m)      an exception escapes member m: members that started are *)
(*                 saved, the run is never completed                       *)
(* Serial runs interleave AddResult/Save per member; breadth-first runs    *)
(* add every member first and save them all at the end.                    *)
(***************************************************************************)
EXTENDS Naturals, Sequences, FiniteSets, TLC

CONSTANTS NMem, Kind      \* Kind \in {"serial", "byline"}

VARIABLES runStatus,      \* "none" | "start" | "complete" | "aborted"
          mstat,          \* per member: "none" | "added" | "saved"
          log             \* the manager calls so far
avars == <<runStatus, mstat, log>>
Mem == 1..NMem

AInit == runStatus = "none" /\ mstat = [m \in Mem |-> "none"] /\ log = <<>>

StartRun == /\ runStatus = "none"
            /\ runStatus' = "start" /\ UNCHANGED mstat /\ log' = Append(log, <<"start", 0>>)
AddResult(m) ==
  /\ runStatus = "start" /\ mstat[m] = "none"
  /\ \A x \in 1..(m-1) : mstat[x] # "none"                                   \* in group order
  /\ Kind = "serial" => \A x \in 1..(m-1) : mstat[x] = "saved"               \* one after another
  /\ mstat' = [mstat EXCEPT ![m] = "added"] /\ UNCHANGED runStatus /\ log' = Append(log, <<"add", m>>)
Save(m) ==
  /\ runStatus \in {"start", "aborted"} /\ mstat[m] = "added"
  /\ Kind = "byline" => \A x \in Mem : mstat[x] # "none" \/ runStatus = "aborted"
  /\ mstat' = [mstat EXCEPT ![m] = "saved"] /\ UNCHANGED runStatus /\ log' = Append(log, <<"save", m>>)
CompleteRun ==
  /\ runStatus = "start" /\ \A m \in Mem : mstat[m] = "saved"
  /\ runStatus' = "complete" /\ UNCHANGED mstat /\ log' = Append(log, <<"complete", 0>>)
\* an exception escapes while member m is running (serial) / while any line is processed (byline)
Abort ==
  /\ runStatus = "start" /\ \E m \in Mem : mstat[m] = "added"
  /\ runStatus' = "aborted" /\ UNCHANGED mstat /\ log' = Append(log, <<"abort", 0>>)

ANext == StartRun \/ (\E m \in Mem : AddResult(m) \/ Save(m)) \/ CompleteRun \/ Abort
ASpec == AInit /\ [][ANext]_avars

\* ---- properties ---------------------------------------------------------------------------------
\* the run manifest claims completion only when every member has been saved
CompleteMeansAllSaved == runStatus = "complete" => \A m \in Mem : mstat[m] = "saved"
\* an aborted run never becomes complete
AbortedStaysAborted == [][runStatus = "aborted" => runStatus' = "aborted"]_avars
\* a member is saved at most once, and only after it was added
SaveAfterAdd == \A i \in 1..Len(log) : log[i][1] = "save" =>
                   \E j \in 1..(i-1) : log[j] = <<"add", log[i][2]>>
\* after an abort every member that had started still gets saved (eventually, before the call returns):
\* stated on terminal states of the lifecycle
Terminal == ~ENABLED ANext
AbortLeavesRecords == (Terminal /\ runStatus = "aborted") => \A m \in Mem : mstat[m] # "added"

\* aggregation used by the run manifest and by ResultsManager.is_valid (C04)
AllOf(flags) == \A i \in 1..Len(flags) : flags[i]
RECURSIVE SumOf(_)
SumOf(ns) == IF ns = <<>> THEN 0 ELSE Head(ns) + SumOf(Tail(ns))
=============================================================================
