------------------------------- MODULE Archive -------------------------------
(***************************************************************************)
(* The results archive of one named-paths run                              *)
(* (csvpath/managers/results/results_manager.py, result_serializer.py,     *)
(* result_registrar.py, results_registrar.py, util/line_spooler.py).       *)
(* C09 (the archive says what the run did), C18 (aborted runs), C04        *)
(* (aggregation of validity).                                              *)
(*                                                                         *)
(* Lifecycle actions, one per manager call:                                *)
(*   StartRun      run manifest written with status "start"                *)
(*   AddResult(m)  member m registered (its directory exists)              *)
(*   Save(m)       meta/vars/errors (+ data/unmatched/printouts) written,  *)
(*                 member manifest completed                               *)
(*   CompleteRun   run manifest rewritten with status "complete"           *)
(*   Abort(m)      an exception escapes member m: members that started are *)
(*                 saved, the run is never completed                       *)
(*   SignalStopAll(m)  the running member m raises the cross-path signal   *)
(*                 stop_all().  In a serial run whose method looks at the  *)
(*                 signal (Honours: IMPL, only next_paths does) no further *)
(*                 member starts: the members after m are CANCELLED - they *)
(*                 never get a directory - and the run is still completed. *)
(* Serial runs interleave AddResult/Save per member; breadth-first runs    *)
(* add every member first and save them all at the end.                    *)
(***************************************************************************)
EXTENDS Naturals, Sequences, FiniteSets, TLC

CONSTANTS NMem, Kind,     \* Kind \in {"serial", "byline"}
          Honours         \* BOOLEAN: the serial run method looks at stop_all() before it starts a member

VARIABLES runStatus,      \* "none" | "start" | "complete" | "aborted"
          mstat,          \* per member: "none" | "added" | "saved"
          halt,           \* stop_all() has been signalled in this run
          log             \* the manager calls so far
avars == <<runStatus, mstat, halt, log>>
Mem == 1..NMem

AInit == runStatus = "none" /\ mstat = [m \in Mem |-> "none"] /\ halt = FALSE /\ log = <<>>

\* the run has been shut down by stop_all(): what has not started never will
ShutDown == Kind = "serial" /\ Honours /\ halt
Cancelled(m) == ShutDown /\ mstat[m] = "none"

StartRun == /\ runStatus = "none"
            /\ runStatus' = "start" /\ UNCHANGED <<mstat, halt>> /\ log' = Append(log, <<"start", 0>>)
AddResult(m) ==
  /\ runStatus = "start" /\ mstat[m] = "none" /\ ~ShutDown
  /\ \A x \in 1..(m-1) : mstat[x] # "none"                                   \* in group order
  /\ Kind = "serial" => \A x \in 1..(m-1) : mstat[x] = "saved"               \* one after another
  /\ mstat' = [mstat EXCEPT ![m] = "added"] /\ UNCHANGED <<runStatus, halt>> /\ log' = Append(log, <<"add", m>>)
Save(m) ==
  /\ runStatus \in {"start", "aborted"} /\ mstat[m] = "added"
  /\ Kind = "byline" => \A x \in Mem : mstat[x] # "none" \/ runStatus = "aborted"
  /\ mstat' = [mstat EXCEPT ![m] = "saved"] /\ UNCHANGED <<runStatus, halt>> /\ log' = Append(log, <<"save", m>>)
\* a member can only signal while it runs: added, not yet saved
SignalStopAll(m) ==
  /\ runStatus = "start" /\ mstat[m] = "added" /\ ~halt
  /\ halt' = TRUE /\ UNCHANGED <<runStatus, mstat>> /\ log' = Append(log, <<"stopall", m>>)
CompleteRun ==
  /\ runStatus = "start" /\ \A m \in Mem : mstat[m] = "saved" \/ Cancelled(m)
  /\ runStatus' = "complete" /\ UNCHANGED <<mstat, halt>> /\ log' = Append(log, <<"complete", 0>>)
\* an exception escapes while member m is running (serial) / while any line is processed (byline)
Abort ==
  /\ runStatus = "start" /\ \E m \in Mem : mstat[m] = "added"
  /\ runStatus' = "aborted" /\ UNCHANGED <<mstat, halt>> /\ log' = Append(log, <<"abort", 0>>)

ANext == StartRun \/ (\E m \in Mem : AddResult(m) \/ Save(m) \/ SignalStopAll(m)) \/ CompleteRun \/ Abort
ASpec == AInit /\ [][ANext]_avars

\* ---- properties ---------------------------------------------------------------------------------
\* the run manifest claims completion only when every member has been saved
\* (or, after a shutdown by stop_all(), never started)
CompleteMeansAllSaved == runStatus = "complete" => \A m \in Mem : mstat[m] = "saved" \/ Cancelled(m)
\* the cancelled members are a proper suffix of the group: something ran, and nothing after a cancelled member ever started
CancelledIsSuffix == \A m \in Mem : Cancelled(m) => m > 1 /\ \A x \in m..NMem : mstat[x] = "none"
\* a cancelled member never got a directory
CancelledNeverAdded == \A m \in Mem : Cancelled(m) => \A i \in 1..Len(log) : log[i] # <<"add", m>>
\* an aborted run never becomes complete
AbortedStaysAborted == [][runStatus = "aborted" => runStatus' = "aborted"]_avars
\* a member is saved at most once, and only after it was added
SaveAfterAdd == \A i \in 1..Len(log) : log[i][1] = "save" =>
                   \E j \in 1..(i-1) : log[j] = <<"add", log[i][2]>>
\* after an abort every member that had started still gets saved (eventually, before the call returns):
\* stated on terminal states of the lifecycle
Terminal == ~ENABLED ANext
\* every run that started ends as complete or aborted - also one that stop_all() shut down (C09: the run manifest says what the run did)
EveryRunEnds == Terminal => runStatus \in {"complete", "aborted"}
AbortLeavesRecords == (Terminal /\ runStatus = "aborted") => \A m \in Mem : mstat[m] # "added"

\* aggregation used by the run manifest and by ResultsManager.is_valid (C04)
AllOf(flags) == \A i \in 1..Len(flags) : flags[i]
RECURSIVE SumOf(_)
SumOf(ns) == IF ns = <<>> THEN 0 ELSE Head(ns) + SumOf(Tail(ns))
=============================================================================
