---------------------------- MODULE ArchiveTrace ----------------------------
(***************************************************************************)
(* Validation of recorded named-paths runs against Archive.tla.  One run   *)
(* per line of the batch (env TRACE_FILE):                                 *)
(*   [tid, kind, nmem, calls, outcome, collects, members, run, stores]     *)
(* calls    the ResultsManager calls in order: [ev, m]; also "stopall"     *)
(*          (CsvPaths.stop_all() called while member m runs)               *)
(* honours  the run method looks at stop_all() before it starts a member   *)
(*          (IMPL: next_paths only)                                        *)
(* members  per member: what the run left in memory (mem), what the        *)
(*          projector read back from its result directory (disk), the scan *)
(*          AST, the number of records and the last record tracked         *)
(* run      the run manifest as read back from disk                        *)
(* Every call must be an enabled Archive action; when the run method has   *)
(* returned (or raised) the archive must agree with memory (C09) or be a   *)
(* truthful record of the abort (C18).                                     *)
(***************************************************************************)
EXTENDS Values, Scan, Json, IOUtils, TLC

Traces == ndJsonDeserialize(IOEnv.TRACE_FILE)

VARIABLES tid, runStatus, mstat, halt, pos, verdict
tvars == <<tid, runStatus, mstat, halt, pos, verdict>>
Case == Traces[tid]
Calls == Case.calls
Mem == 1..Case.nmem
Kind == Case.kind

Init == /\ tid \in 1..Len(Traces)
        /\ runStatus = "none" /\ mstat = [m \in 1..Traces[tid].nmem |-> "none"]
        /\ halt = FALSE /\ pos = 1 /\ verdict = "run"

\* the actions of Archive.tla (same guards), driven by the recorded call
EnStart == runStatus = "none"
ShutDown == Kind = "serial" /\ Case.honours /\ halt
Cancelled(m) == ShutDown /\ mstat[m] = "none"
EnAdd(m) == /\ runStatus = "start" /\ mstat[m] = "none" /\ ~ShutDown
            /\ \A x \in 1..(m-1) : mstat[x] # "none"
            /\ Kind = "serial" => \A x \in 1..(m-1) : mstat[x] = "saved"
EnSave(m) == /\ runStatus \in {"start", "aborted"} /\ mstat[m] = "added"
             /\ Kind = "byline" => ((\A x \in Mem : mstat[x] # "none") \/ runStatus = "aborted")
EnComplete == runStatus = "start" /\ \A m \in Mem : mstat[m] = "saved" \/ Cancelled(m)
\* (a member may call stop_all() on several lines: Archive!SignalStopAll the first time, a stuttering step afterwards)
EnSignal(m) == runStatus = "start" /\ mstat[m] = "added"
EnAbort == runStatus = "start" /\ \E m \in Mem : mstat[m] = "added"

Step ==
  /\ verdict = "run" /\ pos <= Len(Calls)
  /\ LET c == Calls[pos] IN
     CASE c.ev = "start" ->
            IF EnStart THEN runStatus' = "start" /\ UNCHANGED <<mstat, halt, verdict>> /\ pos' = pos + 1
            ELSE verdict' = "lifecycle:start" /\ UNCHANGED <<runStatus, mstat, halt, pos>>
       [] c.ev = "add" ->
            IF c.m \in Mem /\ EnAdd(c.m) THEN mstat' = [mstat EXCEPT ![c.m] = "added"] /\ UNCHANGED <<runStatus, halt, verdict>> /\ pos' = pos + 1
            ELSE verdict' = "lifecycle:add" /\ UNCHANGED <<runStatus, mstat, halt, pos>>
       [] c.ev = "save" ->
            IF c.m \in Mem /\ EnSave(c.m) THEN mstat' = [mstat EXCEPT ![c.m] = "saved"] /\ UNCHANGED <<runStatus, halt, verdict>> /\ pos' = pos + 1
            ELSE verdict' = "lifecycle:save" /\ UNCHANGED <<runStatus, mstat, halt, pos>>
       [] c.ev = "stopall" ->
            IF c.m \in Mem /\ EnSignal(c.m) THEN halt' = TRUE /\ UNCHANGED <<runStatus, mstat, verdict>> /\ pos' = pos + 1
            ELSE verdict' = "lifecycle:stopall" /\ UNCHANGED <<runStatus, mstat, halt, pos>>
       [] c.ev = "complete" ->
            IF EnComplete THEN runStatus' = "complete" /\ UNCHANGED <<mstat, halt, verdict>> /\ pos' = pos + 1
            ELSE verdict' = "lifecycle:complete" /\ UNCHANGED <<runStatus, mstat, halt, pos>>
       [] c.ev = "abort" ->
            IF EnAbort THEN runStatus' = "aborted" /\ UNCHANGED <<mstat, halt, verdict>> /\ pos' = pos + 1
            ELSE verdict' = "lifecycle:abort" /\ UNCHANGED <<runStatus, mstat, halt, pos>>
       [] OTHER -> verdict' = "lifecycle:unknown" /\ UNCHANGED <<runStatus, mstat, halt, pos>>
  /\ UNCHANGED tid

\* ---- agreement of one member's result directory with memory --------------------------------------
CompletedExp(mb) == mb.lastk >= 0 /\ IsLastScanLine(mb.scan, mb.lastk, mb.n)
ExpLines(mb) == IF Case.collects THEN mb.mem.lines ELSE <<>>
MemberDiff(mb) ==
  IF mb.disk.dirname # mb.expdir THEN "member_dir_name"
  ELSE IF ~(mb.disk.hasMeta /\ mb.disk.hasVars /\ mb.disk.hasErrors /\ mb.disk.hasManifest) THEN "mandatory_files"
  ELSE IF ~VarsEq(mb.disk.vars, mb.mem.vars) THEN "vars_json"
  ELSE IF mb.disk.errLines # mb.mem.errLines THEN "errors_json"
  ELSE IF mb.disk.printed # mb.mem.printed THEN "printouts_txt"
  ELSE IF mb.disk.hasPrintouts # (mb.mem.printed # <<>>) THEN "printouts_presence"
  ELSE IF mb.disk.lines # ExpLines(mb) THEN "data_csv"
  ELSE IF mb.disk.unmatched # mb.mem.unmatched THEN "unmatched_csv"
  ELSE IF mb.disk.man.valid # mb.mem.valid THEN "manifest_valid"
  ELSE IF mb.disk.man.fps # mb.disk.hashes THEN "manifest_file_fingerprints"
  ELSE "ok"
\* completed: the member reached the last line of its scan (true only for a member that finished)
CompletedDiff(mb) == IF mb.disk.man.completed # CompletedExp(mb) THEN "manifest_completed" ELSE "ok"

\* the members of a run that returned: all of them, or - after a shutdown by stop_all() - the ones that had started (a prefix)
Ran == {m \in Mem : ~Cancelled(m)}
NRan == Cardinality(Ran)
FirstBad(f(_)) == IF \E m \in Ran : f(Case.members[m]) # "ok"
                    THEN LET m == CHOOSE m \in Ran : f(Case.members[m]) # "ok" /\ \A x \in 1..(m-1) : f(Case.members[x]) = "ok"
                         IN f(Case.members[m])
                    ELSE "ok"
\* a cancelled member left nothing: no directory, no result
CancelledDiff == IF \E m \in Mem : Cancelled(m) /\ Case.members[m].disk.dirname # "<missing>" THEN "cancelled_member_has_directory" ELSE "ok"

AllOf(flags) == \A i \in 1..Len(flags) : flags[i]
RECURSIVE SumOf(_)
SumOf(ns) == IF ns = <<>> THEN 0 ELSE Head(ns) + SumOf(Tail(ns))

\* C09: a run that returned
CompleteDiff ==
  LET d1 == FirstBad(MemberDiff)  d2 == FirstBad(CompletedDiff) IN
  IF runStatus # "complete" THEN "run_not_completed"
  ELSE IF Case.run.status # "complete" THEN "run_manifest_status"
  ELSE IF d1 # "ok" THEN d1
  ELSE IF d2 # "ok" THEN d2
  ELSE IF CancelledDiff # "ok" THEN CancelledDiff
  \* (the run manifest and the results manager speak about the members that ran: Ran = 1..NRan)
  ELSE IF Case.run.all_valid # AllOf([m \in 1..NRan |-> Case.members[m].mem.valid]) THEN "run_manifest_all_valid"
  ELSE IF Case.run.all_completed # AllOf([m \in 1..NRan |-> CompletedExp(Case.members[m])]) THEN "run_manifest_all_completed"
  ELSE IF Case.run.error_count # SumOf([m \in 1..NRan |-> Len(Case.members[m].mem.errLines)]) THEN "run_manifest_error_count"
  ELSE IF Case.is_valid_api # AllOf([m \in 1..NRan |-> Case.members[m].mem.valid]) THEN "results_manager_is_valid"
  \* the other answers of the results manager: one result per member in group order, errors summed, identities resolve to their member
  ELSE IF Case.api_error # "" THEN "results_manager_raised"
  ELSE IF Case.api.n_results # NRan THEN "results_manager_number_of_results"
  ELSE IF Case.api.has_errors # (SumOf([m \in 1..NRan |-> Len(Case.members[m].mem.errLines)]) > 0) THEN "results_manager_has_errors"
  ELSE IF \E i \in 1..Len(Case.api.specific) :
            Case.api.specific[i].got # (IF Cancelled(Case.api.specific[i].m) THEN 0 ELSE Case.api.specific[i].m) THEN "results_manager_specific_result"
  ELSE IF Case.api.last # NRan THEN "results_manager_last_result"
  ELSE "ok"

\* C18: a run that raised.  Every member that had started has readable meta/vars/errors, the
\* aborting member's errors.json names the aborting line and its manifest says completed false,
\* earlier members keep complete results, the run manifest never claims completion, stores unchanged.
Started(m) == mstat[m] # "none"
AbortMemberDiff(m) ==
  LET mb == Case.members[m] IN
  IF ~Started(m) THEN "ok"
  ELSE IF mstat[m] # "saved" THEN "started_member_not_saved"
  ELSE IF ~(mb.disk.hasMeta /\ mb.disk.hasVars /\ mb.disk.hasErrors /\ mb.disk.hasManifest) THEN "abort_mandatory_files"
  ELSE IF m = Case.abort.m /\ Case.abort.line \notin {mb.disk.errLines[i] : i \in 1..Len(mb.disk.errLines)} THEN "abort_error_not_recorded"
  ELSE IF m = Case.abort.m /\ mb.disk.man.completed THEN "abort_member_claims_completed"
  ELSE IF m # Case.abort.m /\ Kind = "serial" /\ MemberDiff(mb) # "ok" THEN "earlier_member:" \o MemberDiff(mb)
  ELSE "ok"
AbortDiff ==
  IF ~Case.raised THEN "exception_did_not_reach_caller"
  ELSE IF runStatus = "complete" \/ Case.run.status = "complete" THEN "aborted_run_claims_complete"
  ELSE IF \E m \in Mem : AbortMemberDiff(m) # "ok"
     THEN AbortMemberDiff(CHOOSE m \in Mem : AbortMemberDiff(m) # "ok")
  ELSE IF ~Case.stores_unchanged THEN "stores_changed"
  ELSE "ok"

Finish ==
  /\ verdict = "run" /\ pos = Len(Calls) + 1
  /\ verdict' = IF Case.outcome = "complete" THEN CompleteDiff ELSE AbortDiff
  /\ UNCHANGED <<tid, runStatus, mstat, halt, pos>>

Next == Step \/ Finish
Spec == Init /\ [][Next]_tvars

CompleteMeansAllSaved == runStatus = "complete" => \A m \in Mem : mstat[m] = "saved" \/ Cancelled(m)
AbortedStaysAborted == [][runStatus = "aborted" => runStatus' = "aborted"]_tvars

Emit == verdict # "run" => PrintT(<<"V", ToJson([tid |-> Case.tid, verdict |-> verdict, at |-> pos])>>)
=============================================================================
