CONSTANTS
  Groups = {"ga", "gb"}
  NMembers = 3
  MaxList = 3
  MaxLen = 3
INIT Init
NEXT Next
INVARIANT ManifestCurrent
INVARIANT NoRepeatEntries
INVARIANT SelectionsConsistent
PROPERTY OneEntryPerChange
CHECK_DEADLOCK FALSE
