CONSTANTS
  M = 2
  N = 2
  Shared = TRUE
INIT Init
NEXT Next
INVARIANT Solo
CHECK_DEADLOCK FALSE
