CONSTANTS
  NJobs = 3
  NFiles = 2
  MaxLen = 3
INIT Init
NEXT Next
INVARIANT HistoryFree
CHECK_DEADLOCK FALSE
