------------------------------ MODULE MC_Assign ------------------------------
(***************************************************************************)
(* Closed instance for C14: every subset of the eight assignment           *)
(* qualifiers x every sequence of three values of y x every pattern of     *)
(* "the rest of the line matches" - one behaviour per combination, three   *)
(* steps each (one per line of a 3-line file).  The decision table         *)
(* Assign!Decide is checked against the prose of docs/assignment.md and of *)
(* the property statement, written independently as invariants, and every  *)
(* terminal state is emitted for replay through the real interpreter.      *)
(***************************************************************************)
EXTENDS Assign, TLC, Json

CONSTANT Sample      \* TRUE: only emit a covering sample (quick tier); FALSE: emit everything

Quals8 == {"onmatch", "latch", "onchange", "increase", "decrease", "notnone", "asbool", "nocontrib"}

\* y codes: 0 absent (a short row read by index), 1..3 the cells "1".."3", 4 an empty cell (a value: the empty text, which is
\* not None - notnone does not block it, latch and onchange compare it like any other value), 10 "true", 11 "false"
YVal(c) == CASE c = 0 -> None
             [] c = 4 -> VStr(<<>>)
             [] c \in 1..3 -> VStr(<<48 + c>>)
             [] c = 10 -> VStr(T_true)
             [] c = 11 -> VStr(T_false)
\* (the empty cell only where no ordering and no truth value is asked of it)
YDom(Q) == IF "increase" \in Q \/ "decrease" \in Q THEN {0, 1, 2, 3}
           ELSE IF "asbool" \in Q THEN {0, 1, 2, 3, 10, 11} ELSE {0, 1, 2, 3, 4, 10, 11}

VARIABLES Q, ys, rests, j, x, hist
vars == <<Q, ys, rests, j, x, hist>>

Init == /\ Q \in SUBSET Quals8
        /\ ys \in [1..3 -> YDom(Q)]
        /\ rests \in [1..3 -> BOOLEAN]
        /\ j = 1 /\ x = None /\ hist = <<>>

\* line j: the assignment decides; the line is returned iff the assignment votes yes and the rest matches
Line ==
  /\ j <= 3
  /\ LET y == YVal(ys[j])
         d == Decide(Q, x, y, rests[j], TRUE)
         nx == IF d.write THEN y ELSE x
     IN /\ x' = nx
        /\ hist' = Append(hist, [write |-> d.write, vote |-> d.vote, x |-> nx, cur |-> x,
                                 returned |-> d.vote /\ rests[j]])
  /\ j' = j + 1
  /\ UNCHANGED <<Q, ys, rests>>
Next == Line
Spec == Init /\ [][Next]_vars

\* ---- the prose, as invariants over the table ---------------------------------------------------
H(i) == hist[i]
Y(i) == YVal(ys[i])
Gate(i) == ("onmatch" \in Q) => rests[i]
Steps == 1..Len(hist)

NocontribNeutral == "nocontrib" \in Q => \A i \in Steps : H(i).vote
OnmatchGates == \A i \in Steps : ~Gate(i) => (~H(i).write /\ ("nocontrib" \notin Q => ~H(i).vote))
WriteSetsY == \A i \in Steps : H(i).write => H(i).x = Y(i)
NoWriteKeeps == \A i \in Steps : ~H(i).write => H(i).x = H(i).cur
NotnoneBlocks == "notnone" \in Q => \A i \in Steps : Y(i) = None => ~H(i).write
\* latch: once x holds a value it is never written again, and being latched is not a negative vote
LatchWritesOnce == "latch" \in Q => \A i \in Steps : H(i).cur # None => ~H(i).write
LatchNeverNegative ==
  "latch" \in Q => \A i \in Steps :
     (Gate(i) /\ H(i).cur # None /\ H(i).cur # Y(i) /\ "asbool" \notin Q) => H(i).vote
\* onchange: an unchanged value is a negative vote
OnchangeNegative ==
  ("onchange" \in Q /\ "nocontrib" \notin Q) => \A i \in Steps : (Gate(i) /\ H(i).cur = Y(i)) => ~H(i).vote
\* increase / decrease: the values written are strictly monotone, and a blocked write votes negative
IncreaseMonotone == "increase" \in Q => \A i \in Steps :
     H(i).write => (H(i).cur = None \/ VLt(H(i).cur, H(i).x))
DecreaseMonotone == "decrease" \in Q => \A i \in Steps :
     H(i).write => (H(i).cur = None \/ VLt(H(i).x, H(i).cur))
\* asbool replaces a positive vote by the truth of y
AsboolTruth == ("asbool" \in Q /\ "nocontrib" \notin Q) => \A i \in Steps :
     H(i).write => H(i).vote = AsBool(Y(i))
\* without qualifiers an assignment always writes and always votes yes
PlainAlways == Q = {} => \A i \in Steps : H(i).write /\ H(i).vote
\* a write is never accompanied by a negative vote unless asbool says so
WritePositive == "asbool" \notin Q => \A i \in Steps : H(i).write => H(i).vote

\* ---- emission for replay -----------------------------------------------------------------------
Code(c) == c
InSample == \/ ~Sample
            \/ (ys[1] + 3 * ys[2] + 7 * ys[3] + (IF rests[1] THEN 1 ELSE 0) + 2 * (IF rests[2] THEN 1 ELSE 0)
                  + 5 * (IF rests[3] THEN 1 ELSE 0) + Cardinality(Q)) % 16 = 0
Emit == (j = 4 /\ InSample) =>
          PrintT(<<"F", ToJson([q |-> Q, ys |-> ys, rests |-> rests,
                                steps |-> [i \in 1..3 |-> [write |-> hist[i].write, vote |-> hist[i].vote,
                                                           x |-> hist[i].x, returned |-> hist[i].returned]]])>>)
=============================================================================
