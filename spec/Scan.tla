------------------------------- MODULE Scan -------------------------------
(***************************************************************************)
(* The scan part of a csvpath: what it denotes (README "Scanning" table,   *)
(* property C02).  Pure operators; used by ScanRun, Run, Group, Archive.   *)
(*                                                                         *)
(* Scan AST (uniform record so that TLC never compares unlike shapes):     *)
(*   [k |-> "all",   a |-> 0, b |-> 0, items |-> <<>>]        *           *)
(*   [k |-> "from",  a |-> n, ...]                             n*          *)
(*   [k |-> "one",   a |-> n, ...]                             n           *)
(*   [k |-> "range", a |-> n, b |-> m, ...]                    n-m         *)
(*   [k |-> "plus",  items |-> << one | range (forward) ... >>] x+y-z+...  *)
(* Line numbers are 0-based positions of CSV records.                      *)
(***************************************************************************)
EXTENDS Naturals, Sequences, FiniteSets

Lo(x, y) == IF x <= y THEN x ELSE y
Hi(x, y) == IF x <= y THEN y ELSE x

\* membership of line n in the denotation of an atom (non-plus scan)
InAtom(s, n) ==
  CASE s.k = "all"   -> TRUE
    [] s.k = "from"  -> n >= s.a
    [] s.k = "one"   -> n = s.a
    [] s.k = "range" -> Lo(s.a, s.b) <= n /\ n <= Hi(s.a, s.b)
    [] OTHER         -> FALSE

In(s, n) ==
  IF s.k = "plus" THEN \E j \in 1..Len(s.items) : InAtom(s.items[j], n)
  ELSE InAtom(s, n)

\* the lines of a file with N records that the scan denotes
DenoteIn(s, N) == {n \in 0..(N-1) : In(s, n)}

\* a record is blank iff it has no cells
Blank(file, n) == file[n+1] = <<>>

\* the lines offered to the match part: denoted and not blank (blank records are never offered)
Offered(s, file) == {n \in DenoteIn(s, Len(file)) : ~Blank(file, n)}

\* Open-ended scans run to the end of the file; closed ones have a greatest denoted line.
OpenEnded(s) == s.k \in {"all", "from"}
AtomMax(s) == IF s.k = "range" THEN Hi(s.a, s.b) ELSE s.a
SetMax(S) == CHOOSE x \in S : \A y \in S : y <= x
MaxLine(s) ==
  IF s.k = "plus" THEN SetMax({AtomMax(s.items[j]) : j \in 1..Len(s.items)}) ELSE AtomMax(s)

\* the run may stop after considering line n when nothing the scan denotes lies beyond it
IsLastScanLine(s, n, N) ==
  IF OpenEnded(s) THEN n = N - 1 ELSE n = MaxLine(s)

\* well-formedness of the shapes in C02's quantifier
WFAtom(s) == s.k \in {"one", "range"} /\ (s.k = "range" => s.a < s.b)
WFPlus(s) == /\ Len(s.items) >= 2
             /\ \A j \in 1..Len(s.items) : WFAtom(s.items[j])
             /\ \A j \in 1..(Len(s.items)-1) :
                   AtomMax(s.items[j]) < (s.items[j+1]).a      \* ascending, non-overlapping
=============================================================================
