SPECIFICATION Spec
INVARIANT CompleteMeansAllSaved
INVARIANT Emit
PROPERTY AbortedStaysAborted
CHECK_DEADLOCK FALSE
