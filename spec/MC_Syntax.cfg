CONSTANT Depth = 1
CONSTANT Small = TRUE
INIT Init
NEXT Next
INVARIANT StartsRight
CHECK_DEADLOCK FALSE
