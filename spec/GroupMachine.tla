---------------------------- MODULE GroupMachine ----------------------------
(***************************************************************************)
(* The joint run machine of a named-paths group: the members are concrete  *)
(* csvpaths (each one a Run.tla machine over the same file) and the        *)
(* CsvPaths instance coordinates them (csvpath/csvpaths.py: collect_paths  *)
(* / next_paths / fast_forward_paths - member-major - and next_by_line -   *)
(* line-major), including the cross-path signals stop_all(), fail_all(),   *)
(* skip_all() and advance_all() that Group.tla only has as a negative      *)
(* control.                                                                *)
(*                                                                         *)
(* The machine is deterministic.  Seek moves the coordinator to the next   *)
(* member/record pair for which CsvPath._consider_line is called, applying *)
(* the coordinator's rules to every member it passes over; Consume binds   *)
(* one recorded _consider_line event to Run!Step of that member and        *)
(* compares every logged field (Run!Diff).  One case per line of the batch *)
(* (env TRACE_FILE):                                                       *)
(*   [tid, kind ("serial"|"byline"), allAgree, file, members, events,      *)
(*    final]                                                               *)
(*   members[m] = [prog, cfg]                                              *)
(*   events[i]  = the i-th _consider_line call in global order: the member *)
(*                index m plus the fields of a RunTrace event              *)
(*   final      = [started, members[m] = [valid, vars, match_count,        *)
(*                 scan_count, stopped], yielded, all_valid]               *)
(*                                                                         *)
(* Coordinator rules (IMPL = mirrors the code, the documentation being the *)
(* functions' docstrings only):                                            *)
(*  serial  before a member starts: stop_all => the run ends (later        *)
(*          members never start); fail_all => the member starts invalid.   *)
(*          skip_all/advance_all act on the executing member only.         *)
(*          IMPL: only next_paths looks at the signals (Case.coordinated); *)
(*          collect_paths and fast_forward_paths ignore them.              *)
(*  byline  at every record, for every member in group order: fail_all =>  *)
(*          invalid; stop_all => stopped, passed over; skip_all (this      *)
(*          record only) => passed over, its line monitor moves on;        *)
(*          advance_all(n) (this record only) => its advance becomes at    *)
(*          least n; a stopped member is passed over.  A record is handed  *)
(*          to the caller iff the members that considered it agree (any /  *)
(*          all of them; no member => allAgree).  The run ends at the end  *)
(*          of the record at which the number of members that stopped      *)
(*          while considering a record reaches the group size, else at the *)
(*          end of the file (IMPL: members stopped by stop_all are not     *)
(*          counted).                                                      *)
(***************************************************************************)
EXTENDS Run

\* The operators below take the group case c = [kind, allAgree, coordinated, file, members] explicitly, so that the trace
\* validator (GroupRun.tla) and the closed instance (MC_GroupRun.tla) share them.
NMof(c) == Len(c.members)
MCaseOf(c, m) == [tid |-> c.tid, prog |-> c.members[m].prog, cfg |-> c.members[m].cfg, file |-> c.file]

MergeSig(a, b) == [stop |-> a.stop \/ b.stop, fail |-> a.fail \/ b.fail, skip |-> a.skip \/ b.skip,
                   adv |-> IF b.adv > a.adv THEN b.adv ELSE a.adv]
ClearSig(S) == [S EXCEPT !.st.sig = NoSig]
Invalidate(S) == [S EXCEPT !.st.valid = FALSE]

\* ---- member-major runs ------------------------------------------------------------------------------
\* g.m is the member that is running; started counts the members that were started
RECURSIVE SerialSeek(_, _)
SerialSeek(c, g) ==
  IF g.S[g.m].pc = "iter" THEN g
  ELSE IF g.m = NMof(c) \/ (c.coordinated /\ g.sig.stop) THEN [g EXCEPT !.pc = "end"]
  ELSE LET n == g.m + 1
           Sn == IF c.coordinated /\ g.sig.fail THEN Invalidate(g.S[n]) ELSE g.S[n]
       IN SerialSeek(c, [g EXCEPT !.m = n, !.S[n] = Sn, !.started = n])

\* ---- line-major runs --------------------------------------------------------------------------------
RECURSIVE LineSeek(_, _)
LineSeek(c, g) ==
  IF g.k >= Len(c.file) THEN [g EXCEPT !.pc = "end"]
  ELSE IF g.m > NMof(c) THEN          \* the end of record k
         LET y == IF g.keep THEN Append(g.yielded, g.k) ELSE g.yielded IN
           IF g.nstopped = NMof(c) THEN [g EXCEPT !.pc = "end", !.yielded = y]
           ELSE LineSeek(c, [g EXCEPT !.k = g.k + 1, !.m = 1, !.yielded = y, !.keep = c.allAgree,
                                      !.sig.skip = FALSE, !.sig.adv = 0])
  ELSE LET m == g.m
           S1 == IF g.sig.fail THEN Invalidate(g.S[m]) ELSE g.S[m]
       IN IF g.sig.stop THEN LineSeek(c, [g EXCEPT !.S[m] = [S1 EXCEPT !.st.stopped = TRUE, !.pc = "done"], !.m = m + 1])
          ELSE IF g.sig.skip THEN LineSeek(c, [g EXCEPT !.S[m] = [S1 EXCEPT !.k = g.k + 1], !.m = m + 1])
          ELSE LET S2 == IF g.sig.adv > S1.st.advance THEN [S1 EXCEPT !.st.advance = g.sig.adv] ELSE S1
               IN IF S2.st.stopped \/ S2.pc = "done" THEN LineSeek(c, [g EXCEPT !.S[m] = S2, !.m = m + 1])
                  ELSE [g EXCEPT !.S[m] = S2]

Seek(c, g) == IF c.kind = "serial" THEN SerialSeek(c, g) ELSE LineSeek(c, g)

InitG(c) == [S |-> [m \in 1..NMof(c) |-> InitS(MCaseOf(c, m))], sig |-> NoSig, m |-> 1, k |-> 0, started |-> 1,
             nstopped |-> 0, keep |-> c.allAgree, yielded |-> <<>>, pc |-> "run"]
StartG(c) == Seek(c, InitG(c))

\* the member the coordinator is at considers its record: Run!Step of that member, then the coordinator moves on
AfterStep(c, g, E) ==
  LET m == g.m
      ret == Len(E.returned) > Len(g.S[m].returned)
      g1 == [g EXCEPT !.S[m] = ClearSig(E), !.sig = MergeSig(g.sig, E.st.sig)]
      g2 == IF c.kind = "serial" THEN g1
            ELSE [g1 EXCEPT !.m = m + 1,
                            !.nstopped = IF E.st.stopped THEN @ + 1 ELSE @,
                            !.keep = IF c.allAgree THEN @ /\ ret ELSE @ \/ ret]
  IN Seek(c, g2)
Advance(c, g) == AfterStep(c, g, Step(MCaseOf(c, g.m), g.S[g.m]))

StartedOf(c, g) == IF c.kind = "serial" THEN g.started ELSE NMof(c)
\* C04: the run's verdict is the conjunction of its members'
AllValidOf(c, g) == \A m \in 1..StartedOf(c, g) : g.S[m].st.valid
=============================================================================
