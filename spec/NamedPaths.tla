----------------------------- MODULE NamedPaths -----------------------------
(***************************************************************************)
(* The named-paths area: groups of csvpaths stored under a name            *)
(* (csvpath/managers/paths/paths_manager.py, paths_registrar.py).  C12.    *)
(*                                                                         *)
(* A member is an abstract token [m, id]: m identifies the csvpath text    *)
(* (concretised by the harness with a generated csvpath), id its identity  *)
(* metadata ("" = none).  grp[g] is the stored list (<<>> = absent group), *)
(* man[g] the manifest: one entry per change of content, holding the       *)
(* fingerprint of the stored group file - abstractly, the list itself.     *)
(***************************************************************************)
\* Add(g, l) abstracts every loading route of the paths manager: add_named_paths(name, paths), set_named_paths({name: paths}),
\* add_named_paths_from_file (a file of csvpaths joined by the line "---- CSVPATH ----"), add_named_paths_from_dir (a directory of
\* such files, the group named after the file) and add_named_paths_from_json ({name: [files]}); the replay picks one route per
\* history (the file routes strip each csvpath, so the stored bytes of one list are route-specific).
EXTENDS Naturals, Sequences, FiniteSets, TLC, Json

CONSTANTS Groups, NMembers, MaxList, MaxLen

VARIABLES grp, man, hist
vars == <<grp, man, hist>>
store == <<grp, man>>

\* two members without identity: selections by identity must not confuse them with each other
IdOf(m) == CASE m = 1 -> "i1" [] m = 2 -> "" [] m = 3 -> "" [] m = 4 -> "i2" [] OTHER -> ""
Mem(m) == [m |-> m, id |-> IdOf(m)]
\* all lists of 1..MaxList members; a csvpath without an identity may occur more than once in a list (the same text twice is
\* two members of the group: count, order and the ':from'/':to' slices include both)
RECURSIVE ListsOf(_)
ListsOf(n) == IF n = 0 THEN {<<>>}
              ELSE {Append(l, Mem(m)) : l \in ListsOf(n - 1), m \in 1..NMembers}
Distinct(l) == \A i, j \in 1..Len(l) : (i # j /\ l[i].m = l[j].m) => l[i].id = ""
Lists == {l \in UNION {ListsOf(n) : n \in 1..MaxList} : Distinct(l)}
Last(q) == q[Len(q)]

Init == grp = [g \in Groups |-> <<>>] /\ man = [g \in Groups |-> <<>>] /\ hist = <<>>

\* ---- what the API answers ------------------------------------------------------------------
HasId(l, id) == \E i \in 1..Len(l) : l[i].id = id
Pos(l, id) == CHOOSE i \in 1..Len(l) : l[i].id = id /\ \A j \in 1..(i-1) : l[j].id # id
Select(l, id) == <<l[Pos(l, id)]>>                       \* name#id  and  $name.csvpaths.id
From(l, id) == SubSeq(l, Pos(l, id), Len(l))            \* $name.csvpaths.id:from
To(l, id) == SubSeq(l, 1, Pos(l, id))                   \* $name.csvpaths.id:to
Ids(l) == {l[i].id : i \in 1..Len(l)} \ {""}

ObsOf(G, M) == [g \in Groups |->
                  [list |-> G[g], man |-> M[g],
                   sel |-> [id \in Ids(G[g]) |-> [one |-> Select(G[g], id), from |-> From(G[g], id), to |-> To(G[g], id)]]]]
Log(op, G, M) == hist' = Append(hist, [op |-> op, obs |-> ObsOf(G, M)])

\* add_named_paths(name=g, paths=l): also a re-add (same list) and a replace (another list)
Add(g, l) ==
  LET M2 == [man EXCEPT ![g] = IF Len(@) > 0 /\ Last(@) = l THEN @ ELSE Append(@, l)]
      G2 == [grp EXCEPT ![g] = l]
  IN grp' = G2 /\ man' = M2 /\ Log([k |-> "add", g |-> g, l |-> l], G2, M2)

Remove(g) == /\ grp[g] # <<>>
             /\ grp' = [grp EXCEPT ![g] = <<>>] /\ man' = [man EXCEPT ![g] = <<>>]
             /\ Log([k |-> "remove", g |-> g, l |-> <<>>], grp', man')

NewInstance == UNCHANGED store /\ Log([k |-> "new", g |-> "", l |-> <<>>], grp, man)

Next == /\ Len(hist) < MaxLen
        /\ \/ \E g \in Groups, l \in Lists : Add(g, l)
           \/ \E g \in Groups : Remove(g)
           \/ NewInstance
Spec == Init /\ [][Next]_vars

\* ---- properties (C12) ------------------------------------------------------------------------
\* the manifest's last entry fingerprints what is stored
ManifestCurrent == \A g \in Groups : grp[g] # <<>> => (man[g] # <<>> /\ Last(man[g]) = grp[g])
NoRepeatEntries == \A g \in Groups : \A i \in 1..(Len(man[g]) - 1) : man[g][i] # man[g][i + 1]
\* one entry per change of content, none for an identical re-add
OneEntryPerChange ==
  [][\A g \in Groups : man'[g] # <<>> =>
        IF grp'[g] = grp[g] THEN man'[g] = man[g]
        ELSE man'[g] = Append(man[g], grp'[g])]_vars
\* selections partition the group: to ++ from overlaps in exactly the selected member
SelectionsConsistent ==
  \A g \in Groups : \A id \in Ids(grp[g]) :
     LET l == grp[g] IN
       /\ Len(To(l, id)) + Len(From(l, id)) = Len(l) + 1
       /\ Last(To(l, id)) = Select(l, id)[1] /\ From(l, id)[1] = Select(l, id)[1]
       /\ Select(l, id)[1].id = id

Emit == Len(hist) = MaxLen => PrintT(<<"F", ToJson(hist)>>)
StoreView == store
=============================================================================
