---------------------------- MODULE ErrorPolicy ----------------------------
(***************************************************************************)
(* Error policy x validation-mode -> outcome of an error raised while a    *)
(* match component is evaluated (csvpath/util/error.py ErrorHandler._handle_if, *)
(* ErrorCommsManager; csvpath/modes/validation_mode.py; Expression.matches). *)
(* Property C05.                                                           *)
(*                                                                         *)
(* policy  subset of Flags, from config [errors] csvpath                   *)
(* vm      validation-mode overrides of this csvpath: a function from a    *)
(*         subset of {"raise","stop","fail","print","match"} to BOOLEAN     *)
(***************************************************************************)
EXTENDS Naturals, Sequences, FiniteSets, TLC

Flags == {"raise", "collect", "stop", "fail", "print", "quiet"}
Overridable == {"raise", "stop", "fail", "print"}

\* the effective setting of an overridable flag: the csvpath's validation-mode wins over the policy
Eff(policy, vm, f) == IF f \in DOMAIN vm THEN vm[f] ELSE f \in policy

\* The handler, in the order the code applies the flags to one error on line `line`:
\*   stop, collect, fail, print, then raise.   st = [stopped, errors, valid, printed, raised]
Handle(policy, vm, st, line) ==
  LET s1 == IF Eff(policy, vm, "stop") THEN [st EXCEPT !.stopped = TRUE] ELSE st
      s2 == IF "collect" \in policy THEN [s1 EXCEPT !.errors = Append(s1.errors, line)] ELSE s1
      s3 == IF Eff(policy, vm, "fail") THEN [s2 EXCEPT !.valid = FALSE] ELSE s2
      s4 == IF Eff(policy, vm, "print") THEN [s3 EXCEPT !.printed = Append(s3.printed, line)] ELSE s3
      s5 == IF Eff(policy, vm, "raise") THEN [s4 EXCEPT !.raised = TRUE] ELSE s4
  IN s5

\* several components of one line may raise: every error is handed to the handler in component order,
\* unless an earlier one raised to the caller
RECURSIVE HandleN(_, _, _, _, _)
HandleN(policy, vm, st, line, n) ==
  IF n = 0 \/ st.raised THEN st ELSE HandleN(policy, vm, Handle(policy, vm, st, line), line, n - 1)

\* does a line with an error match?  only a built-in argument-validation error on a component that
\* is itself the match component can be turned into a match by validation-mode: match
ErrLineMatches(vm, kind) == kind = "argtop" /\ "match" \in DOMAIN vm /\ vm["match"]
=============================================================================
