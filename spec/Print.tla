-------------------------------- MODULE Print --------------------------------
(***************************************************************************)
(* print(): its template and what one execution emits (C16).               *)
(* csvpath/matching/functions/print/printf.py, util/print_parser.py,       *)
(* util/lark_print_parser.py, util/runtime_data_collector.py;              *)
(* docs/printing.md.                                                       *)
(*                                                                         *)
(* A template is a sequence of items of one shape                          *)
(*   [k, s, typ, nameS, nameT, subS, subT]                                  *)
(*   k = "text": s is the literal text (code points), emitted verbatim     *)
(*   k = "ref":  $.<typ>.<name>[.<sub>]; typ in variables | headers |       *)
(*               metadata | csvpath; nameS/subS are the names as STRINGs,   *)
(*               nameT/subT the same as code points ("" / <<>> = no sub)    *)
(* The concrete string is the concatenation of the items; a literal dot    *)
(* directly after a reference is written "..".                             *)
(* Every reference is replaced by the value CURRENT when the print         *)
(* executes; everything else is emitted unchanged.                         *)
(***************************************************************************)
EXTENDS Values

\* env: [vars, line, headers, meta, k, matchCount, scanCount, totalData, valid, stopped]
HeaderPos(headers, t) ==
  IF \E j \in 1..Len(headers) : headers[j] = t
    THEN CHOOSE j \in 1..Len(headers) : headers[j] = t /\ \A x \in 1..(j-1) : headers[x] # t
    ELSE IF IsDigits(t) THEN DigitsVal(t, 0) + 1 ELSE 0

RECURSIVE MetaGet(_, _)
MetaGet(meta, key) == IF meta = <<>> THEN <<>>
                      ELSE IF Head(meta).k = key THEN Head(meta).v ELSE MetaGet(Tail(meta), key)
MetaHas(meta, key) == \E j \in 1..Len(meta) : meta[j].k = key

RefText(it, env) ==
  CASE it.typ = "variables" ->
         IF ~HasVar(env.vars, it.nameS) THEN it.nameT                \* an unknown name prints as itself
         ELSE LET v == GetVar(env.vars, it.nameS) IN
           IF it.subT = <<>> THEN StrOf(v)
           ELSE IF v.t = "dict" /\ DHas(v, VStr(it.subT)) THEN StrOf(DGet(v, VStr(it.subT)))
           ELSE IF v.t = "list" /\ it.subS = "length" THEN IntText(Len(v.items))
           ELSE IF v.t = "list" /\ IsDigits(it.subT) /\ DigitsVal(it.subT, 0) < Len(v.items)
                  THEN StrOf(v.items[DigitsVal(it.subT, 0) + 1])
           ELSE <<>>
    [] it.typ = "headers" ->
         LET p == HeaderPos(env.headers, it.nameT) IN
           IF p >= 1 /\ p <= Len(env.line) THEN env.line[p] ELSE it.nameT
    [] it.typ = "metadata" ->
         IF MetaHas(env.meta, it.nameT) THEN MetaGet(env.meta, it.nameT) ELSE it.nameT
    [] it.typ = "csvpath" ->
         CASE it.nameS = "count_lines"   -> IntText(env.k + 1)
           [] it.nameS = "line_number"   -> IntText(env.k)
           [] it.nameS = "count_matches" -> IntText(env.matchCount)
           [] it.nameS = "count_scans"   -> IntText(env.scanCount)
           [] it.nameS = "total_lines"   -> IntText(env.totalData)
           [] it.nameS = "valid"         -> IF env.valid THEN T_True ELSE T_False
           [] it.nameS = "stopped"       -> IF env.stopped THEN T_True ELSE T_False
           [] OTHER -> it.nameT
    [] OTHER -> <<>>

RECURSIVE Render(_, _)
Render(tmpl, env) ==
  IF tmpl = <<>> THEN <<>>
  ELSE (IF Head(tmpl).k = "text" THEN Head(tmpl).s ELSE RefText(Head(tmpl), env)) \o Render(Tail(tmpl), env)

\* print() appends one blank before parsing and removes one trailing blank afterwards: what is emitted
\* is exactly the rendering
Emitted(tmpl, env) == Render(tmpl, env)
=============================================================================
