CONSTANT Dev = {}
SPECIFICATION Spec
INVARIANT YieldedInOrder
INVARIANT MemberInStep
INVARIANT SoloConcrete
INVARIANT YieldRule
INVARIANT Emit
PROPERTY GroupValidityMonotone
PROPERTY StopAllIsFinal
PROPERTY FailAllReaches
PROPERTY Termination
CHECK_DEADLOCK FALSE
