------------------------------ MODULE GroupRun ------------------------------
(***************************************************************************)
(* Trace validation of recorded joint runs against GroupMachine.tla        *)
(* (see there for the case format and the coordinator rules): Consume      *)
(* binds one recorded _consider_line call to Run!Step of the member the    *)
(* coordinator is at and compares every logged field (Run!Diff); Finish    *)
(* compares the members' final states, the lines handed to the caller and  *)
(* the run manifest's all_valid.                                           *)
(***************************************************************************)
EXTENDS GroupMachine, Json, IOUtils, TLCExt

Traces == ndJsonDeserialize(IOEnv.TRACE_FILE)

VARIABLES tid, G, i, verdict, detail
gvars == <<tid, G, i, verdict, detail>>

Case == Traces[tid]
NM == NMof(Case)

Init == /\ tid \in 1..Len(Traces)
        /\ G = StartG(Traces[tid])
        /\ i = 1 /\ verdict = "run" /\ detail = <<>>

Consume ==
  /\ verdict = "run" /\ i <= Len(Case.events)
  /\ LET ev == Case.events[i] IN
       IF G.pc = "end" THEN verdict' = "extra_event" /\ detail' = <<>> /\ UNCHANGED <<G, i>>
       ELSE IF ev.m # G.m THEN verdict' = "schedule_member" /\ detail' = <<G.m, G.k>> /\ UNCHANGED <<G, i>>
       ELSE LET m == G.m
                before == G.S[m]
                E == Step(MCaseOf(Case, m), before)
                d == Diff(E, ev, before)
            IN IF d # "ok" THEN verdict' = d /\ detail' = <<m, Expected(E, d)>> /\ UNCHANGED <<G, i>>
               ELSE G' = AfterStep(Case, G, E) /\ i' = i + 1 /\ UNCHANGED <<verdict, detail>>
  /\ UNCHANGED tid

FinalMemberDiff(m) ==
  LET f == Case.final.members[m]  S == G.S[m] IN
    IF f.valid # S.st.valid THEN "final_valid"
    ELSE IF f.stopped # S.st.stopped THEN "final_stopped"
    ELSE IF f.match_count # S.st.matchCount THEN "final_match_count"
    ELSE IF f.scan_count # S.st.scanCount THEN "final_scan_count"
    ELSE IF ~VarsEq(f.vars, NormVars(S.st.vars)) THEN "final_vars"
    ELSE "ok"
Started == StartedOf(Case, G)
FirstBad == IF \E m \in 1..Started : FinalMemberDiff(m) # "ok"
              THEN CHOOSE m \in 1..Started : FinalMemberDiff(m) # "ok" /\ \A x \in 1..(m - 1) : FinalMemberDiff(x) = "ok"
              ELSE 0
AllValid == AllValidOf(Case, G)
Finish ==
  /\ verdict = "run" /\ i = Len(Case.events) + 1
  /\ verdict' = IF G.pc # "end" THEN "missing_event"
                ELSE IF Case.final.started # Started THEN "members_started"
                ELSE IF FirstBad # 0 THEN FinalMemberDiff(FirstBad)
                ELSE IF Case.kind = "byline" /\ Case.final.checkYield /\ Case.final.yielded # G.yielded THEN "yielded"
                ELSE IF Case.final.all_valid # AllValid THEN "all_valid"
                ELSE "ok"
  /\ detail' = IF G.pc # "end" THEN <<G.m, G.k>>
               ELSE IF FirstBad # 0 THEN <<FirstBad, G.S[FirstBad].st.valid, G.S[FirstBad].st.stopped,
                                           G.S[FirstBad].st.matchCount, G.S[FirstBad].st.scanCount, NormVars(G.S[FirstBad].st.vars)>>
               ELSE <<Started, G.yielded, AllValid>>
  /\ UNCHANGED <<tid, G, i>>

Next == Consume \/ Finish
Spec == Init /\ [][Next]_gvars

\* ---- properties of the joint machine, evaluated in every state of every validated run -------------------
GroupValidityMonotone == [][\A m \in 1..NM : G'.S[m].st.valid => G.S[m].st.valid]_gvars
StopAllIsFinal == [][(Case.coordinated /\ G.sig.stop) => \A m \in 1..NM : G'.S[m].st.scanCount = G.S[m].st.scanCount]_gvars
YieldedInOrder == Increasing(G.yielded)
CursorMonotone == [][G'.k > G.k \/ (G'.k = G.k /\ G'.m >= G.m) \/ Case.kind = "serial"]_gvars

Emit == verdict # "run" =>
          PrintT(<<"V", ToJson([tid |-> Case.tid, verdict |-> verdict, at |-> i,
                                expected |-> IF verdict = "ok" THEN <<>> ELSE detail])>>)
=============================================================================
