------------------------------ MODULE GroupRun ------------------------------
(***************************************************************************)
(* The joint run machine of a named-paths group: the members are concrete  *)
(* csvpaths (each one a Run.tla machine over the same file) and the        *)
(* CsvPaths instance coordinates them (csvpath/csvpaths.py: collect_paths  *)
(* / next_paths / fast_forward_paths - member-major - and next_by_line -   *)
(* line-major), including the cross-path signals stop_all(), fail_all(),   *)
(* skip_all() and advance_all() that Group.tla only has as a negative      *)
(* control.                                                                *)
(*                                                                         *)
(* The machine is deterministic.  Seek moves the coordinator to the next   *)
(* member/record pair for which CsvPath._consider_line is called, applying *)
(* the coordinator's rules to every member it passes over; Consume binds   *)
(* one recorded _consider_line event to Run!Step of that member and        *)
(* compares every logged field (Run!Diff).  One case per line of the batch *)
(* (env TRACE_FILE):                                                       *)
(*   [tid, kind ("serial"|"byline"), allAgree, file, members, events,      *)
(*    final]                                                               *)
(*   members[m] = [prog, cfg]                                              *)
(*   events[i]  = the i-th _consider_line call in global order: the member *)
(*                index m plus the fields of a RunTrace event              *)
(*   final      = [started, members[m] = [valid, vars, match_count,        *)
(*                 scan_count, stopped], yielded, all_valid]               *)
(*                                                                         *)
(* Coordinator rules (IMPL = mirrors the code, the documentation being the *)
(* functions' docstrings only):                                            *)
(*  serial  before a member starts: stop_all => the run ends (later        *)
(*          members never start); fail_all => the member starts invalid.   *)
(*          skip_all/advance_all act on the executing member only.         *)
(*          IMPL: only next_paths looks at the signals (Case.coordinated); *)
(*          collect_paths and fast_forward_paths ignore them.              *)
(*  byline  at every record, for every member in group order: fail_all =>  *)
(*          invalid; stop_all => stopped, passed over; skip_all (this      *)
(*          record only) => passed over, its line monitor moves on;        *)
(*          advance_all(n) (this record only) => its advance becomes at    *)
(*          least n; a stopped member is passed over.  A record is handed  *)
(*          to the caller iff the members that considered it agree (any /  *)
(*          all of them; no member => allAgree).  The run ends at the end  *)
(*          of the record at which the number of members that stopped      *)
(*          while considering a record reaches the group size, else at the *)
(*          end of the file (IMPL: members stopped by stop_all are not     *)
(*          counted).                                                      *)
(***************************************************************************)
EXTENDS Run, Json, IOUtils, TLCExt

Traces == ndJsonDeserialize(IOEnv.TRACE_FILE)

VARIABLES tid, G, i, verdict, detail
gvars == <<tid, G, i, verdict, detail>>

Case == Traces[tid]
NM == Len(Case.members)
NRec == Len(Case.file)
MCase(m) == [tid |-> Case.tid, prog |-> Case.members[m].prog, cfg |-> Case.members[m].cfg, file |-> Case.file]

MergeSig(a, b) == [stop |-> a.stop \/ b.stop, fail |-> a.fail \/ b.fail, skip |-> a.skip \/ b.skip,
                   adv |-> IF b.adv > a.adv THEN b.adv ELSE a.adv]
ClearSig(S) == [S EXCEPT !.st.sig = NoSig]
Invalidate(S) == [S EXCEPT !.st.valid = FALSE]

\* ---- member-major runs ------------------------------------------------------------------------------
\* g.m is the member that is running; started counts the members that were started
RECURSIVE SerialSeek(_)
SerialSeek(g) ==
  IF g.S[g.m].pc = "iter" THEN g
  ELSE IF g.m = NM \/ (Case.coordinated /\ g.sig.stop) THEN [g EXCEPT !.pc = "end"]
  ELSE LET n == g.m + 1
           Sn == IF Case.coordinated /\ g.sig.fail THEN Invalidate(g.S[n]) ELSE g.S[n]
       IN SerialSeek([g EXCEPT !.m = n, !.S[n] = Sn, !.started = n])

\* ---- line-major runs --------------------------------------------------------------------------------
RECURSIVE LineSeek(_)
LineSeek(g) ==
  IF g.k >= NRec THEN [g EXCEPT !.pc = "end"]
  ELSE IF g.m > NM THEN          \* the end of record k
         LET y == IF g.keep THEN Append(g.yielded, g.k) ELSE g.yielded IN
           IF g.nstopped = NM THEN [g EXCEPT !.pc = "end", !.yielded = y]
           ELSE LineSeek([g EXCEPT !.k = g.k + 1, !.m = 1, !.yielded = y, !.keep = Case.allAgree,
                                   !.sig.skip = FALSE, !.sig.adv = 0])
  ELSE LET m == g.m
           S1 == IF g.sig.fail THEN Invalidate(g.S[m]) ELSE g.S[m]
       IN IF g.sig.stop THEN LineSeek([g EXCEPT !.S[m] = [S1 EXCEPT !.st.stopped = TRUE, !.pc = "done"], !.m = m + 1])
          ELSE IF g.sig.skip THEN LineSeek([g EXCEPT !.S[m] = [S1 EXCEPT !.k = g.k + 1], !.m = m + 1])
          ELSE LET S2 == IF g.sig.adv > S1.st.advance THEN [S1 EXCEPT !.st.advance = g.sig.adv] ELSE S1
               IN IF S2.st.stopped \/ S2.pc = "done" THEN LineSeek([g EXCEPT !.S[m] = S2, !.m = m + 1])
                  ELSE [g EXCEPT !.S[m] = S2]

Seek(g) == IF Case.kind = "serial" THEN SerialSeek(g) ELSE LineSeek(g)

InitG == [S |-> [m \in 1..NM |-> InitS(MCase(m))], sig |-> NoSig, m |-> 1, k |-> 0, started |-> 1,
          nstopped |-> 0, keep |-> Case.allAgree, yielded |-> <<>>, pc |-> "run"]

Init == /\ tid \in 1..Len(Traces)
        /\ G = (IF Traces[tid].kind = "serial" THEN SerialSeek(InitG) ELSE LineSeek(InitG))  \* Case is not usable before tid is set: see Init2
        /\ i = 1 /\ verdict = "run" /\ detail = <<>>

\* ---- one recorded _consider_line call -----------------------------------------------------------------
Consume ==
  /\ verdict = "run" /\ i <= Len(Case.events)
  /\ LET ev == Case.events[i] IN
       IF G.pc = "end" THEN verdict' = "extra_event" /\ detail' = <<>> /\ UNCHANGED <<G, i>>
       ELSE IF ev.m # G.m THEN verdict' = "schedule_member" /\ detail' = <<G.m, G.k>> /\ UNCHANGED <<G, i>>
       ELSE LET m == G.m
                before == G.S[m]
                E == Step(MCase(m), before)
                d == Diff(E, ev, before)
            IN IF d # "ok" THEN verdict' = d /\ detail' = <<m, Expected(E, d)>> /\ UNCHANGED <<G, i>>
               ELSE LET ret == Len(E.returned) > Len(before.returned)
                        g1 == [G EXCEPT !.S[m] = ClearSig(E), !.sig = MergeSig(G.sig, E.st.sig)]
                        g2 == IF Case.kind = "serial" THEN g1
                              ELSE [g1 EXCEPT !.m = m + 1,
                                              !.nstopped = IF E.st.stopped THEN @ + 1 ELSE @,
                                              !.keep = IF Case.allAgree THEN @ /\ ret ELSE @ \/ ret]
                    IN G' = Seek(g2) /\ i' = i + 1 /\ UNCHANGED <<verdict, detail>>
  /\ UNCHANGED tid

\* ---- after the last event --------------------------------------------------------------------------------
FinalMemberDiff(m) ==
  LET f == Case.final.members[m]  S == G.S[m] IN
    IF f.valid # S.st.valid THEN "final_valid"
    ELSE IF f.stopped # S.st.stopped THEN "final_stopped"
    ELSE IF f.match_count # S.st.matchCount THEN "final_match_count"
    ELSE IF f.scan_count # S.st.scanCount THEN "final_scan_count"
    ELSE IF ~VarsEq(f.vars, NormVars(S.st.vars)) THEN "final_vars"
    ELSE "ok"
Started == IF Case.kind = "serial" THEN G.started ELSE NM
FirstBad == IF \E m \in 1..Started : FinalMemberDiff(m) # "ok"
              THEN CHOOSE m \in 1..Started : FinalMemberDiff(m) # "ok" /\ \A x \in 1..(m - 1) : FinalMemberDiff(x) = "ok"
              ELSE 0
\* C04: the run's verdict is the conjunction of its members'
AllValid == \A m \in 1..Started : G.S[m].st.valid
Finish ==
  /\ verdict = "run" /\ i = Len(Case.events) + 1
  /\ verdict' = IF G.pc # "end" THEN "missing_event"
                ELSE IF Case.final.started # Started THEN "members_started"
                ELSE IF FirstBad # 0 THEN FinalMemberDiff(FirstBad)
                ELSE IF Case.kind = "byline" /\ Case.final.checkYield /\ Case.final.yielded # G.yielded THEN "yielded"
                ELSE IF Case.final.all_valid # AllValid THEN "all_valid"
                ELSE "ok"
  /\ detail' = IF G.pc # "end" THEN <<G.m, G.k>>
               ELSE IF FirstBad # 0 THEN <<FirstBad, G.S[FirstBad].st.valid, G.S[FirstBad].st.stopped,
                                           G.S[FirstBad].st.matchCount, G.S[FirstBad].st.scanCount, NormVars(G.S[FirstBad].st.vars)>>
               ELSE <<Started, G.yielded, AllValid>>
  /\ UNCHANGED <<tid, G, i>>

Next == Consume \/ Finish
Spec == Init /\ [][Next]_gvars

\* ---- properties of the joint machine, evaluated in every state of every validated run -------------------
\* a member that fail_all() reached stays invalid; validity never comes back
GroupValidityMonotone == [][\A m \in 1..NM : G'.S[m].st.valid => G.S[m].st.valid]_gvars
\* once stop_all() has been noted no member considers another record
StopAllIsFinal == [][(Case.coordinated /\ G.sig.stop) => \A m \in 1..NM : G'.S[m].st.scanCount = G.S[m].st.scanCount]_gvars
\* the records handed to the caller are in file order, each once
YieldedInOrder == Increasing(G.yielded)
\* the coordinator never goes back
CursorMonotone == [][G'.k > G.k \/ (G'.k = G.k /\ G'.m >= G.m) \/ Case.kind = "serial"]_gvars

Emit == verdict # "run" =>
          PrintT(<<"V", ToJson([tid |-> Case.tid, verdict |-> verdict, at |-> i,
                                expected |-> IF verdict = "ok" THEN <<>> ELSE detail])>>)
=============================================================================
