CONSTANT Dev = {}
SPECIFICATION Spec
INVARIANT ReturnedOnceInOrder
INVARIANT ReturnedWereOffered
INVARIANT MatchLeScan
INVARIANT ScanCountExact
INVARIANT StoppedIsFinal
INVARIANT ReturnedCountIsMatchCount
INVARIANT Partition
INVARIANT Emit
PROPERTY ValidityMonotone
PROPERTY CountsMonotone
PROPERTY AdvanceInert
PROPERTY FrozenOnlyAtEnd
PROPERTY Termination
CHECK_DEADLOCK FALSE
