---------------------------- MODULE MC_GroupRun ----------------------------
(***************************************************************************)
(* Closed instance of the joint group machine: a POOL of small groups      *)
(* (members from component templates incl. the cross-path signals, small   *)
(* files, both schedules, both agreement modes; env POOL_FILE) is explored *)
(* by TLC - Init picks any group, Next is GroupMachine!Advance - with the  *)
(* joint properties checked in every state; each terminal state is emitted *)
(* for replay into the real CsvPaths (direction A).                        *)
(***************************************************************************)
EXTENDS GroupMachine, Json, IOUtils

Cases == ndJsonDeserialize(IOEnv.POOL_FILE)

VARIABLES cid, G
mvars == <<cid, G>>
Case == Cases[cid]
NM == NMof(Case)

Init == cid \in 1..Len(Cases) /\ G = StartG(Cases[cid])
Next == G.pc = "run" /\ G' = Advance(Case, G) /\ UNCHANGED cid
Spec == Init /\ [][Next]_mvars /\ WF_mvars(Next)

\* a member that fail_all() reached stays invalid; validity never comes back (C04)
GroupValidityMonotone == [][\A m \in 1..NM : G'.S[m].st.valid => G.S[m].st.valid]_mvars
\* once a coordinated run has noted stop_all() no member considers another record
StopAllIsFinal == [][(Case.coordinated /\ G.sig.stop) => \A m \in 1..NM : G'.S[m].st.scanCount = G.S[m].st.scanCount]_mvars
\* in a coordinated run fail_all() leaves no member valid that is considered (or started) afterwards
FailAllReaches == [][(Case.coordinated /\ G.sig.fail /\ G'.pc = "run") => ~G'.S[G'.m].st.valid]_mvars
\* the records handed to the caller are in file order, each once, and only records of the file
YieldedInOrder == Increasing(G.yielded) /\ \A j \in 1..Len(G.yielded) : G.yielded[j] < Len(Case.file)
\* every member sees the records in order without gaps: the coordinator is never ahead of or behind a member it lets consider
MemberInStep == (G.pc = "run" /\ Case.kind = "byline") => G.S[G.m].k = G.k

\* every joint run ends (liveness under weak fairness of Advance)
Termination == <>(G.pc = "end")

\* ---- C08 on concrete members: without cross-path signals ------------------------------------------------
\* (Case.signals is FALSE when no member uses stop_all/fail_all/skip_all/advance_all)
RECURSIVE RunAlone(_, _)
RunAlone(c, S) == IF S.pc = "iter" THEN RunAlone(c, Step(c, S)) ELSE S
\* every member ends exactly as a standalone CsvPath over the same file ends, under both schedules; a line-major run that
\* is over before the end of the file (every member has stopped) leaves each member where its own run stopped
SoloConcrete == (G.pc = "end" /\ ~Case.signals) =>
                   \A m \in 1..NM : G.S[m] = RunAlone(MCaseOf(Case, m), InitS(MCaseOf(Case, m)))
\* the records handed to the caller of a line-major run are, per record, the union (if_all_agree: the intersection) of the
\* decisions of the members that looked at it
MaxK == LET ks == {G.S[m].k : m \in 1..NM} IN CHOOSE x \in ks : \A y \in ks : y <= x
InSeq(s, x) == \E j \in 1..Len(s) : s[j] = x
KeepRule(k) == LET A == {m \in 1..NM : k < G.S[m].k} IN
                 IF Case.allAgree THEN \A m \in A : InSeq(G.S[m].returned, k) ELSE \E m \in A : InSeq(G.S[m].returned, k)
YieldRule == (G.pc = "end" /\ ~Case.signals /\ Case.kind = "byline") =>
                G.yielded = SelectSeq([j \in 1..MaxK |-> j - 1], KeepRule)

Emit == G.pc = "end" =>
   PrintT(<<"F", ToJson([cid |-> Case.tid, started |-> StartedOf(Case, G), yielded |-> G.yielded, allValid |-> AllValidOf(Case, G),
                         members |-> [m \in 1..NM |-> [valid |-> G.S[m].st.valid, stopped |-> G.S[m].st.stopped,
                                                        matchCount |-> G.S[m].st.matchCount, scanCount |-> G.S[m].st.scanCount,
                                                        vars |-> NormVars(G.S[m].st.vars), returned |-> G.S[m].returned]]])>>)
=============================================================================
