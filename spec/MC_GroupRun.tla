---------------------------- MODULE MC_GroupRun ----------------------------
(***************************************************************************)
(* Closed instance of the joint group machine: a POOL of small groups      *)
(* (members from component templates incl. the cross-path signals, small   *)
(* files, both schedules, both agreement modes; env POOL_FILE) is explored *)
(* by TLC - Init picks any group, Next is GroupMachine!Advance - with the  *)
(* joint properties checked in every state; each terminal state is emitted *)
(* for replay into the real CsvPaths (direction A).                        *)
(***************************************************************************)
EXTENDS GroupMachine, Json, IOUtils

Cases == ndJsonDeserialize(IOEnv.POOL_FILE)

VARIABLES cid, G
mvars == <<cid, G>>
Case == Cases[cid]
NM == NMof(Case)

Init == cid \in 1..Len(Cases) /\ G = StartG(Cases[cid])
Next == G.pc = "run" /\ G' = Advance(Case, G) /\ UNCHANGED cid
Spec == Init /\ [][Next]_mvars

\* a member that fail_all() reached stays invalid; validity never comes back (C04)
GroupValidityMonotone == [][\A m \in 1..NM : G'.S[m].st.valid => G.S[m].st.valid]_mvars
\* once a coordinated run has noted stop_all() no member considers another record
StopAllIsFinal == [][(Case.coordinated /\ G.sig.stop) => \A m \in 1..NM : G'.S[m].st.scanCount = G.S[m].st.scanCount]_mvars
\* in a coordinated run fail_all() leaves no member valid that is considered (or started) afterwards
FailAllReaches == [][(Case.coordinated /\ G.sig.fail /\ G'.pc = "run") => ~G'.S[G'.m].st.valid]_mvars
\* the records handed to the caller are in file order, each once, and only records of the file
YieldedInOrder == Increasing(G.yielded) /\ \A j \in 1..Len(G.yielded) : G.yielded[j] < Len(Case.file)
\* every member sees the records in order without gaps: the coordinator is never ahead of or behind a member it lets consider
MemberInStep == (G.pc = "run" /\ Case.kind = "byline") => G.S[G.m].k = G.k

Emit == G.pc = "end" =>
   PrintT(<<"F", ToJson([cid |-> Case.tid, started |-> StartedOf(Case, G), yielded |-> G.yielded, allValid |-> AllValidOf(Case, G),
                         members |-> [m \in 1..NM |-> [valid |-> G.S[m].st.valid, stopped |-> G.S[m].st.stopped,
                                                        matchCount |-> G.S[m].st.matchCount, scanCount |-> G.S[m].st.scanCount,
                                                        vars |-> NormVars(G.S[m].st.vars), returned |-> G.S[m].returned]]])>>)
=============================================================================
