-------------------------------- MODULE Meta --------------------------------
(***************************************************************************)
(* The outer comment of a csvpath: metadata fields and the split of        *)
(* comment / scan / match (C15).  csvpath/util/metadata_parser.py;         *)
(* docs/comments.md: "A field is set by putting a colon after a word. The  *)
(* word becomes the field and everything up to the next coloned word is    *)
(* the value of the field. ... If you want to stop a metadata field ...    *)
(* add a stand-alone colon."                                               *)
(*                                                                         *)
(* A comment is a sequence of code points c (without ~ [ ] $).             *)
(* Declaratively:                                                          *)
(*   a colon at position i has the key  c[KeyStart(i) .. i-1], the longest *)
(*   run of word characters (letters, digits, - and _) ending right before *)
(*   it; an empty key is a stand-alone colon;                              *)
(*   its value runs from i+1 to just before the key of the next colon (or  *)
(*   to the end) and is stripped of surrounding blanks;                    *)
(*   a later field with the same key replaces an earlier one.              *)
(***************************************************************************)
EXTENDS Naturals, Sequences, FiniteSets, TLC, Json
INSTANCE Values

IsWordC(x) == (x >= 48 /\ x <= 57) \/ (x >= 65 /\ x <= 90) \/ (x >= 97 /\ x <= 122) \/ x = 45 \/ x = 95
Colons(c) == {i \in 1..Len(c) : c[i] = 58}
\* start of the run of word characters that ends right before position i
RECURSIVE KeyStart(_, _)
KeyStart(c, i) == IF i > 1 /\ IsWordC(c[i - 1]) THEN KeyStart(c, i - 1) ELSE i
Key(c, i) == SubSeq(c, KeyStart(c, i), i - 1)
NextColon(c, i) == IF \E j \in Colons(c) : j > i
                     THEN CHOOSE j \in Colons(c) : j > i /\ \A x \in Colons(c) : x > i => j <= x
                     ELSE 0
Value(c, i) == LET n == NextColon(c, i)
                   hi == IF n = 0 THEN Len(c) ELSE KeyStart(c, n) - 1
               IN Strip(SubSeq(c, i + 1, hi))
\* the fields of a comment: key -> value of the LAST colon carrying that key
FieldColons(c) == {i \in Colons(c) : Key(c, i) # <<>>}
Keys(c) == {Key(c, i) : i \in FieldColons(c)}
LastWith(c, k) == CHOOSE i \in FieldColons(c) : Key(c, i) = k /\ \A j \in FieldColons(c) : Key(c, j) = k => j <= i
Fields(c) == [k \in Keys(c) |-> Value(c, LastWith(c, k))]

\* the split: everything between the outer tildes is comment, the rest is the csvpath, unchanged
Split(comment, path) == [comment |-> Strip(comment), path |-> path]

\* ---- closed instance: every comment over a small alphabet up to a length ---------------------------
CONSTANTS Alphabet, MaxLen
VARIABLE c
Init == c \in UNION {[1..n -> Alphabet] : n \in 0..MaxLen}
Next == UNCHANGED c
\* sanity of the declarative definition: a value never contains the key of the field that follows it, values are stripped,
\* and a comment without a colon has no fields
NoColonNoFields == (Colons(c) = {}) => Keys(c) = {}
ValuesStripped == \A k \in Keys(c) : LET v == Fields(c)[k] IN v = <<>> \/ (v[1] \notin WS /\ v[Len(v)] \notin WS)
KeysAreWords == \A k \in Keys(c) : \A j \in 1..Len(k) : IsWordC(k[j])
\* the leading-character convention the documentation is silent about: a value that starts with
\* punctuation (see CHOICES.md); such comments are emitted with plain = FALSE and replayed for the split only
PlainValues == \A i \in FieldColons(c) :
   LET n == NextColon(c, i)  hi == IF n = 0 THEN Len(c) ELSE KeyStart(c, n) - 1
       raw == LStrip(SubSeq(c, i + 1, hi))
   IN raw = <<>> \/ IsWordC(raw[1])
Emit == PrintT(<<"F", ToJson([c |-> c, plain |-> PlainValues,
                              fields |-> [i \in 1..Cardinality(Keys(c)) |-> <<>>],
                              kv |-> {<<k, Fields(c)[k]>> : k \in Keys(c)}])>>)
=============================================================================
